#!/bin/bash
# Applies every seeded change to a scratch worktree of /repo (outside /repo and /verif), runs the quick check of the
# property it was written for (plus listed cross-checks) against that copy, removes the copy. Writes seeded/RESULTS.tsv.
# Neither /repo nor the committed evidence is touched.
ROOT="$(cd "$(dirname "$0")/.." && pwd)"; cd "$ROOT"; mkdir -p .work
out=seeded/RESULTS.tsv
[ "${1:-}" = "--one" ] || echo -e "seed\tcheck\ttier\trc\tverdict" > $out
export VERIF_EVIDENCE_DIR=${VERIF_EVIDENCE_DIR:-/tmp/seedmatrix_evidence} VERIF_REPLAY_DIR=${VERIF_REPLAY_DIR:-/tmp/seedmatrix_replays}
run() { # seed check
  local d=seeded/$1 p=$2 wt=/tmp/sm_$1_$2
  local patch=$d/patch.diff
  [ -f $d/patch_ported_to_fixed_tree.diff ] && patch=$d/patch_ported_to_fixed_tree.diff
  git -C /repo worktree remove --force $wt 2>/dev/null
  git -C /repo worktree add -q --detach $wt HEAD || return
  if git -C $wt apply "$ROOT/$patch"; then
    VERIF_REPO=$wt ./check $p --tier quick > .work/seedrun_$1_$p.log 2>&1; rc=$?
  else rc=3; fi
  git -C /repo worktree remove --force $wt
  v=missed; [ $rc -eq 1 ] && v=caught; [ $rc -eq 2 ] && v=no-verdict; [ $rc -eq 3 ] && v=patch-does-not-apply
  echo -e "$1\t$p\tquick\t$rc\t$v" | tee -a $out
}
if [ "${1:-}" = "--one" ]; then run $2 $3; exit 0; fi
# (LANES checks at a time; the evidence / replay directories are per lane so that runs do not overwrite each other's files)
{ for d in seeded/C*; do s=$(basename $d); echo "$s ${s%%-*}"; done
  # cross-checks: seeds that another property's check sees as well
  echo "C01-B C15"; echo "C01-D C15"; echo "C18-B C10"; echo "C11-B C13"; echo "C11-C C13"; echo "C01-E C20"; echo "C20-D C08"; echo "C20-F C08"
  echo "C15-G C01"; echo "C01-H C04"; echo "C19-G C11"; echo "C05-F C14"
} | xargs -P ${LANES:-3} -L 1 bash -c 'VERIF_EVIDENCE_DIR=/tmp/seedmatrix_evidence_$$ VERIF_REPLAY_DIR=/tmp/seedmatrix_replays_$$ "$0" --one $1 $2; rm -rf /tmp/seedmatrix_evidence_$$ /tmp/seedmatrix_replays_$$' "$ROOT/tools/seed_matrix.sh"
sort -o $out.sorted $out && { grep '^seed' $out.sorted; grep -v '^seed' $out.sorted; } > $out; rm -f $out.sorted
rm -rf /tmp/seedmatrix_evidence /tmp/seedmatrix_replays
