CONSTANTS
  SecretForms = {"raw16", "raw24", "raw32", "b64_16", "b64_24", "b64_32"}
  Stride = 1
INIT Init
NEXT Next
INVARIANTS EmitCase
CHECK_DEADLOCK FALSE
