CONSTANTS
  Tier = "quick"
SPECIFICATION Spec2
INVARIANTS Mon_Flags Mon_Size Mon_Domain
POSTCONDITION TraceAccepted
CHECK_DEADLOCK FALSE
