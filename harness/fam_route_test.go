//go:build verif

package main

import (
	"crypto/rand"
	"crypto/sha256"
	"fmt"
	mrand "math/rand"
	"net/http"
	"strings"
	"testing"
)

var vpRouteSets = map[string][]vpUpstreamCfg{
	"root":    {{ID: "root", Kind: "http", Path: "/"}},
	"nested":  {{ID: "root", Kind: "http", Path: "/"}, {ID: "A", Kind: "http", Path: "/a/"}, {ID: "AB", Kind: "http", Path: "/a/b/"}},
	"sibling": {{ID: "A", Kind: "http", Path: "/a/"}, {ID: "B", Kind: "http", Path: "/b/"}},
	"exact":   {{ID: "root", Kind: "http", Path: "/"}, {ID: "Aexact", Kind: "http", Path: "/a"}},
	"rewrite": {{ID: "root", Kind: "http", Path: "/"}, {ID: "RW1", Kind: "http", Path: "^/app/(.*)$", Rewrite: "/v1/$1"}, {ID: "RW2", Kind: "http", Path: "^/app/x/(.*)$", Rewrite: "/v2/$1"}},
	"static":  {{ID: "S", Kind: "static", Path: "/", Code: 202}, {ID: "A", Kind: "http", Path: "/a/"}},
}

var vpRouteQueries = map[string]string{"none": "", "simple": "?k=v", "canon2": "?a=1&b=2", "unsorted": "?b=2&a=1&b=0", "encoded": "?q=%2Fx%20y+z&e=%C3%A9", "semi": "?cmd=list;sort=up&f=a;b;c"}

// what every recording upstream answers with: repeated lines, values containing commas, upstream cookies
func vpUpRespHeader() http.Header {
	return http.Header{"X-Up": {"u1", "u2"}, "Content-Type": {"text/x-test"},
		"Www-Authenticate": {`Basic realm="a"`, `Bearer realm="b", error="x"`}, "Vary": {"Accept", "Cookie"},
		"Link": {`</a>; rel="next"`, `</b>; rel="prev"`}, "Set-Cookie": {"up1=1; Path=/", "up2=2; Path=/x"},
		"X-Empty": {""}, "X-Comma": {"a, b", "c"}}
}

func init() {
	vpRegister("route", func(t *testing.T, env *vpEnv) {
		voc, err := vpLoadVocab()
		if err != nil {
			t.Fatalf("vocab: %v", err)
		}
		small := make([]byte, 100)
		rand.Read(small)
		big := make([]byte, 1<<20)
		rand.Read(big)
		bodies := map[string]string{"none": "", "small": string(small), "big": string(big)}
		keys, groups := vpGroup(env.cases, func(c *vpCase) string { return fmt.Sprint(c.In["set"], c.In["rawPath"], c.In["passHost"]) })
		vpRunGroups(keys, groups, env.seed, func(rng *mrand.Rand, key string, cs []*vpCase) {
			in0 := cs[0].In
			ph := vpB(in0, "passHost")
			cfg := &vpCfg{Upstreams: vpRouteSets[vpS(in0, "set")], ProxyRawPath: vpB(in0, "rawPath"), PassHost: &ph}
			w, err := vpNewWorld(cfg)
			if err != nil {
				for _, c := range cs {
					env.emit(vpOut{ID: c.ID, Err: "world: " + err.Error()})
				}
				return
			}
			defer w.close()
			for id, u := range w.ups {
				u.respStatus = 207
				u.respHeader = vpUpRespHeader()
				u.respBody = []byte("body-of-" + id)
			}
			jar := vpNewJar()
			if _, err := w.login(jar, "alice", ""); err != nil {
				for _, c := range cs {
					env.emit(vpOut{ID: c.ID, Err: "login: " + err.Error()})
				}
				return
			}
			cookie := jar.header()
			for _, c := range cs {
				in := c.In
				path := voc.text(vpSeq(in["path"]))
				query := vpRouteQueries[vpS(in, "query")]
				bclass := vpS(in, "body")
				body := bodies[strings.TrimPrefix(bclass, "chunked_")]
				if bclass == "chunked_big" {
					body = body[:200*1024]
				}
				req := vpReq{Method: vpS(in, "method"), Target: path + query, Cookie: cookie, Body: body, Chunked: strings.HasPrefix(bclass, "chunked_"),
					Header: [][2]string{{"X-Custom-A", "1"}, {"X-Custom-A", "2"}, {"X-Weird_Name", "w"}, {"Accept-Language", "xx-YY"}}}
				if body != "" {
					req.Header = append(req.Header, [2]string{"Content-Type", "application/octet-stream"})
				}
				r := w.do(req)
				obs := map[string]interface{}{"status": r.Status, "panic": r.Panic != ""}
				if r.UpLast == nil {
					obs["upstream"] = "none"
					if r.Status == 202 {
						obs["upstream"] = "static"
					}
				} else {
					u := r.UpLast
					obs["upstream"] = u.Upstream
					obs["method"] = u.Method
					gotPath, gotQuery := u.Target, ""
					if i := strings.Index(u.Target, "?"); i >= 0 {
						gotPath, gotQuery = u.Target[:i], u.Target[i:]
					}
					obs["path"] = voc.tokens(gotPath)
					obs["queryIntact"] = gotQuery == query
					obs["bodyIntact"] = sha256.Sum256(u.Body) == sha256.Sum256([]byte(body))
					obs["headersIntact"] = strings.Join(u.Header.Values("X-Custom-A"), ",") == "1,2" && u.Header.Get("X-Weird_Name") == "w" &&
						u.Header.Get("Accept-Language") == "xx-YY" && (body == "" || u.Header.Get("Content-Type") == "application/octet-stream")
					if ph {
						obs["hostOK"] = u.Host == vpHost
					} else {
						obs["hostOK"] = u.Host == strings.TrimPrefix(w.ups[u.Upstream].srv.URL, "http://")
					}
					// every header of the upstream's answer arrives with exactly its list of values (line by line, not joined)
					relay := r.Status == 207 && string(r.Body) == "body-of-"+u.Upstream
					for name, want := range vpUpRespHeader() {
						if strings.Join(r.Header.Values(name), "\x00") != strings.Join(want, "\x00") {
							relay = false
							obs["relayDiff"] = map[string]interface{}{"name": name, "want": want, "got": r.Header.Values(name)}
						}
					}
					obs["relayOK"] = relay
					obs["gotTarget"] = u.Target
				}
				env.emit(vpOut{ID: c.ID, Obs: obs, Conc: map[string]interface{}{"target": req.Target}})
			}
		})
	})
}
