CONSTANTS
  CheckB64 = TRUE
  SuffixLen = 4
INIT Init
NEXT Next
INVARIANTS C02_TamperEvident
CHECK_DEADLOCK FALSE
