-------------------------------- MODULE Reload --------------------------------
(* C20: credential / allow-list files reload atomically.                          *)
(* file: version on disk; mem: snapshot the validators read; reloaders read the     *)
(* file, parse it (a malformed version fails to parse) and swap the snapshot in     *)
(* one step; validators begin, read the snapshot and answer.                         *)
(* InPlace = TRUE models the named deviation "the map is updated entry by entry":    *)
(* TLC must then report NoTornRead (selftest).  Leftover = TRUE models the named      *)
(* deviation "a parse that fails half-way leaves the entries it had read in a buffer   *)
(* that the next successful reload merges in" (content of a malformed version = its    *)
(* well-formed prefix): again NoTornRead.                                               *)
EXTENDS Naturals, Sequences, FiniteSets, TLC

CONSTANTS Versions,      \* sequence of [good : BOOLEAN, content : set of entries]; version 1 is loaded at start
          Reloaders, Validators, InPlace, Leftover

VARIABLES file,     \* index of the version on disk
          mem,      \* set of entries in memory
          memv,     \* ghost: the version mem equals (0 while torn)
          rl,       \* [Reloaders -> [pc, v, todo]]
          vl,       \* [Validators -> [pc, lo, seen]]  lo = version completely loaded when the validation began
          loaded,   \* highest version whose reload has completed
          spare     \* (Leftover only) entries a failed parse left behind
vars == <<file, mem, memv, rl, vl, loaded, spare>>

N == Len(Versions)
RECURSIVE Eff(_)
Eff(v) == IF Versions[v].good THEN v ELSE Eff(v - 1)      \* a malformed version leaves the previous contents in force

Init == /\ file = 1 /\ mem = Versions[1].content /\ memv = 1 /\ loaded = 1 /\ spare = {}
        /\ rl = [r \in Reloaders |-> [pc |-> "idle", v |-> 0, todo |-> {}]]
        /\ vl = [x \in Validators |-> [pc |-> "idle", lo |-> 0, seen |-> {}, seenv |-> 0]]

Write == /\ file < N /\ file' = file + 1 /\ UNCHANGED <<mem, memv, rl, vl, loaded, spare>>
\* the watcher fires: a reloader reads what is on disk now
Read(r) == /\ rl[r].pc = "idle" /\ Eff(file) # memv
           /\ rl' = [rl EXCEPT ![r] = [pc |-> "parsed", v |-> file, todo |-> {}]]
           /\ UNCHANGED <<file, mem, memv, vl, loaded, spare>>
Swap(r) == /\ rl[r].pc = "parsed"
           /\ IF ~Versions[rl[r].v].good
              THEN /\ rl' = [rl EXCEPT ![r].pc = "idle"] /\ UNCHANGED <<mem, memv, loaded>>      \* parse error: previous contents stay
                   /\ spare' = IF Leftover THEN Versions[rl[r].v].content ELSE spare
              ELSE IF ~InPlace
              THEN /\ mem' = Versions[rl[r].v].content \cup spare
                   /\ memv' = IF spare \subseteq Versions[rl[r].v].content THEN rl[r].v ELSE 0
                   /\ spare' = {}
                   /\ loaded' = (IF rl[r].v > loaded THEN rl[r].v ELSE loaded)
                   /\ rl' = [rl EXCEPT ![r].pc = "idle"]
              ELSE \* deviation: remove / add entry by entry
                   /\ rl' = [rl EXCEPT ![r] = [pc |-> "mutating", v |-> rl[r].v, todo |-> (mem \ Versions[rl[r].v].content) \cup (Versions[rl[r].v].content \ mem)]]
                   /\ memv' = 0 /\ UNCHANGED <<mem, loaded, spare>>
           /\ UNCHANGED <<file, vl>>
Mutate(r) == /\ rl[r].pc = "mutating"
             /\ IF rl[r].todo = {}
                THEN /\ rl' = [rl EXCEPT ![r].pc = "idle"] /\ memv' = rl[r].v
                     /\ loaded' = (IF rl[r].v > loaded THEN rl[r].v ELSE loaded) /\ UNCHANGED mem
                ELSE \E e \in rl[r].todo :
                     /\ mem' = IF e \in mem THEN mem \ {e} ELSE mem \cup {e}
                     /\ rl' = [rl EXCEPT ![r].todo = @ \ {e}] /\ UNCHANGED <<memv, loaded>>
             /\ UNCHANGED <<file, vl, spare>>

Begin(x)  == /\ vl[x].pc = "idle" /\ vl' = [vl EXCEPT ![x] = [pc |-> "begun", lo |-> loaded, seen |-> {}, seenv |-> 0]]
             /\ UNCHANGED <<file, mem, memv, rl, loaded, spare>>
ReadMem(x) == /\ vl[x].pc = "begun" /\ vl' = [vl EXCEPT ![x].pc = "done", ![x].seen = mem, ![x].seenv = memv]
              /\ UNCHANGED <<file, mem, memv, rl, loaded, spare>>
End(x)    == /\ vl[x].pc = "done" /\ vl' = [vl EXCEPT ![x].pc = "idle"] /\ UNCHANGED <<file, mem, memv, rl, loaded, spare>>

Next == Write \/ (\E r \in Reloaders : Read(r) \/ Swap(r) \/ Mutate(r)) \/ (\E x \in Validators : Begin(x) \/ ReadMem(x) \/ End(x))

\* every validation answers from the complete contents of one version
NoTornRead == \A x \in Validators : vl[x].pc = "done" => \E v \in 1..N : Versions[v].good /\ vl[x].seen = Versions[v].content
\* ... and not from one older than what had completely loaded when it began
Monotone   == \A x \in Validators : vl[x].pc = "done" /\ vl[x].seenv # 0 => vl[x].seenv >= vl[x].lo
\* a malformed version never becomes the contents in force
KeepOld    == memv # 0 => Versions[memv].good
=============================================================================
