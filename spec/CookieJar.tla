------------------------------ MODULE CookieJar ------------------------------
(* C10 (and the cookie side of C11): the cookie session store against a         *)
(* browser cookie jar that is carried across requests.                          *)
(*   Save(p)  - the store emits the session as one cookie NAME (p = 1) or as     *)
(*              p parts NAME_0..NAME_{p-1}; the repaired store also expires      *)
(*              every presented session cookie it does not overwrite            *)
(*   Clear    - expires every presented session cookie                           *)
(*   Load     - prefers the unsplit cookie; otherwise joins NAME_0, NAME_1, ...   *)
(*              while present; the result verifies iff it is exactly the cookie  *)
(*              sequence of one save                                             *)
(* Every reachable state is one save/clear history; the requirement is that the  *)
(* session loaded after each step is the one saved last (nothing after a clear). *)
EXTENDS Naturals, Sequences, FiniteSets, TLC, Json, CSV, Str

CONSTANTS MaxOps, MaxParts, Stores, NameLens, StaleCleanup   \* StaleCleanup = FALSE models the pre-fix store (selftest)

Vocab == [ atoms |-> [ none |-> "" ] ]

Slots == 0..MaxParts          \* slot 0 = the unsplit cookie NAME, slot i+1 = NAME_i
None  == [save |-> 0, part |-> 0, of |-> 0]

VARIABLES jar,    \* [Slots -> cookie]  cookie = [save, part, of]; None = absent
          last,   \* id of the session saved last, 0 after a clear / initially
          n,      \* number of saves so far (ids)
          hist,   \* the history with the per-step requirement and model prediction
          cfg     \* [store, nameLen]
vars == <<jar, last, n, hist, cfg>>

Written(p, id) == IF p = 1 THEN [s \in Slots |-> IF s = 0 THEN [save |-> id, part |-> 0, of |-> 1] ELSE None]
                  ELSE [s \in Slots |-> IF s >= 1 /\ s <= p THEN [save |-> id, part |-> s - 1, of |-> p] ELSE None]

\* the browser applies the Set-Cookie headers of a save
AfterSave(j, p, id) ==
    LET w == Written(p, id)
    IN [s \in Slots |-> IF w[s] # None THEN w[s]
                        ELSE IF StaleCleanup THEN None      \* presented and not overwritten: expired by the repaired store
                        ELSE j[s]]

\* loadCookie + joinCookies + signature check, on the jar
Contig(j) == CHOOSE k \in 0..MaxParts : (\A s \in 1..k : j[s] # None) /\ (k = MaxParts \/ j[k + 1] = None)
Load(j) ==
    IF j[0] # None THEN (IF j[0].of = 1 THEN j[0].save ELSE 0)
    ELSE LET k == Contig(j)
         IN IF k = 0 THEN 0
            ELSE IF k = 1 THEN (IF j[1].of = 1 THEN j[1].save ELSE 0)     \* a single part is handed to the verifier as is
            ELSE IF \A s \in 1..k : j[s].save = j[1].save /\ j[s].part = s - 1 /\ j[s].of = k THEN j[1].save ELSE 0

Tag(id) == id      \* 0 = nothing loads

\* the server-side store keeps one ticket cookie: modelled as always-unsplit
Parts(p) == IF cfg.store = "redis" THEN 1 ELSE p

Init == /\ jar = [s \in Slots |-> None] /\ last = 0 /\ n = 0 /\ hist = <<>>
        /\ cfg \in [store : Stores, nameLen : NameLens]

\* ct = "rep": the session's fields are long runs and repetitions (many kilobytes that compress into ONE cookie) instead of
\* incompressible tokens - for the jar it is a one-part save like any other
\* who = "same": the save is of the SAME identity as the previous save (a refresh, a repeated login: only tokens, groups, nonce and
\* expiry differ); "other": another user's session. For the jar both are saves like any other.
Save(p, ct, who) == /\ Len(hist) < MaxOps
           /\ (ct = "rep" => p = 1)
           /\ (n = 0 => who = "other")
           /\ n' = n + 1
           /\ jar' = AfterSave(jar, Parts(p), n + 1)
           /\ last' = n + 1
           /\ hist' = Append(hist, [a |-> "save", args |-> [parts |-> p, id |-> n + 1, content |-> ct, who |-> who],
                                    req  |-> [loaded |-> n + 1, intact |-> TRUE, maxCookie |-> [le |-> 4096]],
                                    impl |-> [loaded |-> Load(jar')]])
           /\ UNCHANGED cfg
Clear == /\ Len(hist) < MaxOps
         /\ Len(hist) > 0                                   \* a clear on an empty jar is covered by the initial Load
         /\ jar' = [s \in Slots |-> None]
         /\ last' = 0
         /\ hist' = Append(hist, [a |-> "clear", args |-> [parts |-> 0, id |-> 0],
                                  req |-> [loaded |-> 0], impl |-> [loaded |-> Load(jar')]])
         /\ UNCHANGED <<n, cfg>>
\* A request that LEFT the browser before the last save (a second tab, an image still loading: it presents the cookies the jar held before
\* that save) is handled after it.  Whatever the proxy answers, the browser applies it - and the jar must afterwards still load the session
\* that was saved last (nothing, after a clear): an answer to a stale presentation does not undo a save.
InFlight == /\ Len(hist) < MaxOps /\ Len(hist) > 0
            /\ hist[Len(hist)].a \in {"save", "clear"}
            /\ Len(hist) >= 2                                   \* there was a jar before the last step
            /\ hist' = Append(hist, [a |-> "inflight", args |-> [parts |-> 0, id |-> 0],
                                     req |-> [loaded |-> last] @@ (IF last # 0 THEN [intact |-> TRUE] ELSE <<>>), impl |-> [loaded |-> Load(jar)]])
            /\ UNCHANGED <<jar, last, n, cfg>>
Next == (\E p \in 1..MaxParts, ct \in {"rand", "rep"}, who \in {"same", "other"} : Save(p, ct, who)) \/ Clear \/ InFlight

\* ---- properties ----------------------------------------------------------------------------
C10_RoundTrip == Load(jar) = last
\* the part count of a save is what the class says (sanity of the model)
TypeOK == \A s \in Slots : jar[s] = None \/ (jar[s].save \in 1..n)

CaseRec == [fam |-> "c10", cfg |-> cfg, in |-> [store |-> cfg.store, nameLen |-> cfg.nameLen, ops |-> Len(hist)], steps |-> hist]
EmitVocab == JsonSerialize("vocab.json", Vocab)
EmitCase  == Len(hist) > 0 => CSVWrite("%1$s", <<ToJson(CaseRec)>>, "cases.ndjson")
=============================================================================
