---------------------------- MODULE Trace_Reload ----------------------------
(* Judge for C20: concurrent histories recorded from the real htpasswd validator  *)
(* and the real authenticated-e-mails validator while their files are rewritten.    *)
(* Events carry a global sequence number (their order in the trace).                *)
(*   begin_file  f n        a new history starts (file kind f, n versions)          *)
(*   version     v good users      contents of version v (list of <<key, secret>>)  *)
(*   write       v          version v is about to be renamed into place             *)
(*   loaded      v          completion of the reload of (good) version v observed   *)
(*   vbegin      id         a validation starts                                     *)
(*   vend        id key secret answer      it ends                                  *)
(* A validation must answer according to the complete contents of one version that  *)
(* could be in force during it: not older than what had completely loaded when it   *)
(* began, not newer than what had been written when it ended; malformed versions    *)
(* leave the previous contents in force.                                            *)
EXTENDS Integers, Sequences, FiniteSets, TLC, Json

Trace == ndJsonDeserialize("trace.ndjson")

VARIABLES i, versions, written, loaded, open, last, ok
vars == <<i, versions, written, loaded, open, last, ok>>

NoEvent == [kind |-> "none"]
Init == i = 1 /\ versions = <<>> /\ written = 1 /\ loaded = 1 /\ open = <<>> /\ last = NoEvent /\ ok = TRUE

RECURSIVE Eff(_, _)
Eff(vs, v) == IF v <= 1 THEN 1 ELSE IF vs[v].good THEN v ELSE Eff(vs, v - 1)
Valid(vs, v, key, secret) == \E k \in 1..Len(vs[v].users) : vs[v].users[k] = <<key, secret>>
\* the contents that can be in force between "lo had completely loaded" and "hi had been written"
Live(vs, lo, hi) == {Eff(vs, x) : x \in lo..hi}

Consume ==
    /\ i <= Len(Trace)
    /\ LET e == Trace[i] IN
       /\ last' = e
       /\ versions' = CASE e.kind = "begin_file" -> <<>>
                        [] e.kind = "version"    -> Append(versions, [good |-> e.good, users |-> e.users])
                        [] OTHER                 -> versions
       /\ written' = CASE e.kind = "begin_file" -> 1 [] e.kind = "write" -> e.v [] OTHER -> written
       /\ loaded'  = CASE e.kind = "begin_file" -> 1 [] e.kind = "loaded" /\ e.v > loaded -> e.v [] OTHER -> loaded
       /\ open'    = CASE e.kind = "begin_file" -> <<>>
                        [] e.kind = "vbegin" -> Append(open, [id |-> e.id, lo |-> loaded])
                        [] e.kind = "vend"   -> SelectSeq(open, LAMBDA o : o.id # e.id)
                        [] OTHER -> open
       /\ ok' = IF e.kind = "vend"
                THEN LET mine == SelectSeq(open, LAMBDA o : o.id = e.id) IN
                     Len(mine) = 1 /\ \E x \in Live(versions, mine[1].lo, written) : Valid(versions, x, e.key, e.secret) = e.answer
                ELSE TRUE
    /\ i' = i + 1
Next == Consume
Spec == Init /\ [][Next]_vars

\* old-or-new, monotone after completion, malformed keeps old - all in one: the answer is explainable
Mon_Explainable == ok
\* a good version that was renamed into place comes into force (the recorder waits 5 s for it; "notloaded" is recorded otherwise):
\* a reload that never happens makes every later validation answer from contents that are no longer the file's
Mon_Completes == last.kind # "notloaded"
TraceAccepted == TLCGet("stats").diameter - 1 = Len(Trace)
=============================================================================
