CONSTANTS
  W = 12
  NameLens = {13, 100}
  Thresholds = {1, 2}
  Attrs = {"light", "heavy"}
INIT Init
NEXT Next
INVARIANTS EmitCase
CHECK_DEADLOCK FALSE
