------------------------------- MODULE Redirect -------------------------------
(* C06: redirects derived from request data never leave the allowed origins.       *)
(* Strings are sequences of tokens from an adversarial alphabet.                    *)
(*   Impl_Valid      - transcription of redirect.IsValidRedirect (two-rule switch,   *)
(*                     the regular expression over tokens, Go's url.Parse host /     *)
(*                     port / userinfo extraction and its error cases,               *)
(*                     util.IsEndpointAllowed)                                        *)
(*   BrowserResolve  - WHATWG-URL-style resolution of the string as a Location       *)
(*                     relative to http(s)://requesthost/ : SameHost, Host(h, port), *)
(*                     Other (non-http(s) scheme) or Invalid                          *)
(*   Safe            - SameHost, Invalid, or a host and port the whitelist permits   *)
(* TLC checks Impl_Valid(s) => Safe(BrowserResolve(s)) for every string; the real     *)
(* validator is run on the same strings (conformance) and what the real endpoints     *)
(* emit is judged by the same oracle.                                                 *)
EXTENDS Naturals, Sequences, FiniteSets, TLC, Json, CSV, Str

CONSTANTS MaxLen, RandN, RandLen

Vocab == [ atoms |-> [ sl |-> "/", bs |-> "\\", tab |-> "\t", sp |-> " ", lf |-> "\n", dot |-> ".", dd |-> "..", seg |-> "path",
                       evil |-> "evil.com", good |-> "good.example.com", look |-> "evilexample.com", at |-> "@", col |-> ":", port |-> "8443", p80 |-> "80", p443 |-> "443", q |-> "?", h |-> "#",
                       p2f |-> "%2f", http |-> "http:", https |-> "https:", HTTPS |-> "HTTPS:", hTtP |-> "hTtP:", v6 |-> "[::1]", v6map |-> "[::ffff:7f00:1]", pct26 |-> "%26", pct25 |-> "%25", pct3D |-> "%3D", plus |-> "+", eq |-> "=", amp1 |-> "&", ctl |-> "{CTL}", nbsp |-> "{NBSP}", amp |-> "&x=", pfxseg |-> "oauth2-docs" ] ]
\* {CTL} and {NBSP} stand for the bytes 0x01 and U+00A0 (TLA+ strings cannot spell them); the harness substitutes them
Tokens == {"sl", "bs", "tab", "sp", "lf", "dot", "dd", "seg", "evil", "good", "look", "at", "col", "port", "q", "h", "p2f", "http", "https", "ctl", "nbsp"}

Slash(t)  == t \in {"sl", "bs"}
WS(t)     == t \in {"tab", "sp", "lf"}                \* what Go's \s matches among the tokens
Strs == SeqsUpTo(Tokens, 1, MaxLen)

\* whitelist shapes for good.example.com
WLs == {"none", "exact", "dotted", "wild", "exact_port", "exact_anyport", "exact_p80", "exact_p443"}
PortTok == {"port", "p80", "p443"}
\* does a hostname (token sequence) match the rule's host part
HostAllowed(hn, wl) ==
    CASE wl = "none"  -> FALSE
      [] wl \in {"dotted", "wild"} -> Len(hn) >= 1 /\ hn[Len(hn)] = "good"        \* good.example.com itself or anything ending in .example.com
      [] OTHER -> hn = <<"good">>
\* the implementation compares the port strings literally (util.IsEndpointAllowed)      p: "" | a port token | "bad"
PortAllowed(p, wl) ==
    CASE wl = "exact_port"    -> p = "port"
      [] wl = "exact_p80"     -> p = "p80"
      [] wl = "exact_p443"    -> p = "p443"
      [] wl = "exact_anyport" -> p \in {""} \cup PortTok
      [] OTHER                -> p = ""
\* what the rules permit, in terms of the port the browser will connect to: a rule with a port permits that port, a rule
\* without one permits the default port of the URL's scheme.  sch = "base": protocol-relative, the page's scheme (unknown).
DefaultPort(sch) == CASE sch = "http" -> "p80" [] sch = "https" -> "p443" [] OTHER -> "base"
PortPermitted(p, sch, wl) ==
    LET eff == IF p = "" THEN DefaultPort(sch) ELSE p IN
    CASE wl = "exact_port"    -> eff = "port"
      [] wl = "exact_p80"     -> eff = "p80"
      [] wl = "exact_p443"    -> eff = "p443"
      [] wl = "exact_anyport" -> p \in {""} \cup PortTok
      [] OTHER                -> p = "" \/ p = DefaultPort(sch)

\* ---- implementation -------------------------------------------------------------------------------
\* invalidRedirectRegex  [/\\](?:[\s\v]*|\.{1,2})[/\\]
DotsOnly(s, i, j) == \/ (j = i + 2 /\ s[i+1] \in {"dot", "dd"})
                     \/ (j = i + 3 /\ s[i+1] = "dot" /\ s[i+2] = "dot")
RegexHit(s) == \E i \in 1..Len(s), j \in 1..Len(s) :
                  /\ i < j /\ Slash(s[i]) /\ Slash(s[j])
                  /\ ((\A k \in (i+1)..(j-1) : WS(s[k])) \/ DotsOnly(s, i, j))

\* Go url.Parse of  scheme "//" rest : fragment cut at the first '#', query at the first '?', authority up to the first '/'
CutAt(s, T) == LET I == {i \in 1..Len(s) : s[i] \in T} IN IF I = {} THEN s ELSE Take(s, (CHOOSE i \in I : \A j \in I : i <= j) - 1)
GoAuthority(rest) == CutAt(CutAt(CutAt(rest, {"h"}), {"q"}), {"sl"})
\* characters Go refuses anywhere (control bytes) / in userinfo / in a host
GoCtl(t)         == t \in {"tab", "lf", "ctl"}
GoBadUserinfo(t) == t \in {"bs", "sp", "nbsp", "sl", "q", "h", "v6", "v6map"}     \* [ and ] are not valid userinfo bytes
GoBadHost(t)     == t \in {"bs", "sp", "p2f", "at"}
LastAt(a) == LastIndexOf(a, "at")
GoUserinfo(a) == IF LastAt(a) = 0 THEN <<>> ELSE Take(a, LastAt(a) - 1)
GoHostPort(a) == Drop(a, LastAt(a))
\* host:port -> the port is what follows the last ':' if that is empty or digits; otherwise the whole thing is the host
\* (the scheme tokens end in ':' as well: inside an authority that colon separates a port like any other)
SchemeTok == {"http", "https", "HTTPS", "hTtP"}
V6Tok == {"v6", "v6map"}                   \* bracketed literals: they contain colons themselves
LastColon(hp) == LET I == {i \in 1..Len(hp) : hp[i] = "col" \/ hp[i] \in SchemeTok \/ (i > 1 /\ hp[i] \in V6Tok)} IN IF I = {} THEN 0 ELSE CHOOSE i \in I : \A j \in I : j <= i
GoSplit(hp) ==
    IF hp # <<>> /\ hp[1] \in V6Tok
    THEN \* "[...]" first: what follows the bracket must be an optional port
         LET rest == Tail(hp) IN
         IF rest = <<>> \/ rest = <<"col">> THEN [host |-> <<hp[1]>>, port |-> "", ok |-> TRUE]
         ELSE IF Len(rest) = 2 /\ rest[1] = "col" /\ rest[2] \in PortTok THEN [host |-> <<hp[1]>>, port |-> rest[2], ok |-> TRUE]
         ELSE [host |-> hp, port |-> "bad", ok |-> FALSE]
    ELSE
    LET c == LastColon(hp) IN
    IF c = 0 THEN [host |-> hp, port |-> "", ok |-> TRUE]
    ELSE IF hp[c] \in V6Tok THEN [host |-> hp, port |-> "bad", ok |-> FALSE]      \* the last colon lies inside the literal: "1]..." is no port
    ELSE LET p == Drop(hp, c)
             h == IF hp[c] = "col" THEN Take(hp, c - 1) ELSE Take(hp, c)
         IN
         IF p = <<>> THEN [host |-> h, port |-> "", ok |-> TRUE]
         ELSE IF Len(p) = 1 /\ p[1] \in PortTok THEN [host |-> h, port |-> p[1], ok |-> TRUE]
         ELSE [host |-> hp, port |-> "bad", ok |-> FALSE]              \* "invalid port" is a parse error
GoParsesOK(s) ==
    LET rest == Drop(s, 3)   a == GoAuthority(rest)   hp == GoHostPort(a) IN
    /\ \A i \in 1..Len(s) : ~GoCtl(s[i])
    /\ \A i \in 1..Len(GoUserinfo(a)) : ~GoBadUserinfo(GoUserinfo(a)[i])
    /\ \A i \in 1..Len(hp) : ~GoBadHost(hp[i])
    /\ GoSplit(hp).ok
    /\ \A i \in 1..Len(rest) : rest[i] # "p2f" \/ i > Len(a)         \* (escapes outside the authority are fine)
Impl_Valid(s, wl) ==
    CASE s = <<>> -> FALSE
      [] s[1] = "sl" /\ ~(Len(s) >= 2 /\ s[2] = "sl") /\ ~RegexHit(s) -> TRUE
      [] Len(s) >= 3 /\ s[1] \in {"http", "https"} /\ s[2] = "sl" /\ s[3] = "sl" ->
            /\ GoParsesOK(s)
            /\ LET sp == GoSplit(GoHostPort(GoAuthority(Drop(s, 3)))) IN HostAllowed(sp.host, wl) /\ PortAllowed(sp.port, wl)
      [] OTHER -> FALSE

\* ---- the browser --------------------------------------------------------------------------------
\* 1. strip leading / trailing C0-control-or-space; delete tab and newline everywhere
C0Space(t) == t \in {"tab", "sp", "lf", "ctl"}
RECURSIVE StripL(_)
StripL(s) == IF s # <<>> /\ C0Space(s[1]) THEN StripL(Tail(s)) ELSE s
RECURSIVE StripR(_)
StripR(s) == IF s # <<>> /\ C0Space(s[Len(s)]) THEN StripR(Take(s, Len(s) - 1)) ELSE s
Pre(s) == SelectSeq(StripR(StripL(s)), LAMBDA t : t \notin {"tab", "lf"})
\* 2. authority state: up to the next / \ ? # ; userinfo up to the last @ ; forbidden host code points; port digits
RECURSIVE SkipSlashes(_)
SkipSlashes(s) == IF s # <<>> /\ Slash(s[1]) THEN SkipSlashes(Tail(s)) ELSE s
BAuthority(s) == CutAt(s, {"sl", "bs", "q", "h"})
BForbiddenHost(t) == t \in {"sp", "ctl", "p2f", "nbsp", "at", "q", "h", "sl", "bs"}     \* %2f decodes to '/', a forbidden host code point
BHost(a, sch) ==
    LET hp == Drop(a, LastAt(a))  sp == GoSplit(hp) IN
    IF hp = <<>> \/ ~sp.ok \/ sp.host = <<>> \/ (\E i \in 1..Len(sp.host) : BForbiddenHost(sp.host[i]) \/ sp.host[i] = "col")
    THEN [kind |-> "invalid", host |-> <<>>, port |-> "", sch |-> sch]
    ELSE [kind |-> "host", host |-> sp.host, port |-> sp.port, sch |-> sch]
\* 3. scheme / relative resolution against http(s)://requesthost/
BrowserResolve(s0) ==
    LET s == Pre(s0) IN
    IF s = <<>> THEN [kind |-> "same", host |-> <<>>, port |-> "", sch |-> "base"]
    ELSE IF s[1] \in {"http", "https", "HTTPS", "hTtP"} THEN        \* schemes are case-insensitive for a browser
         \* special scheme.  Same as the base scheme and not followed by a slash: relative to the base; otherwise authority after any slashes
         \* (we do not know whether the page is http or https: treat both readings as possible and take the dangerous one)
         BHost(BAuthority(SkipSlashes(Tail(s))), IF s[1] \in {"http", "hTtP"} THEN "http" ELSE "https")
    ELSE IF Len(s) >= 2 /\ s[1] = "seg" /\ s[2] = "col" THEN [kind |-> "other", host |-> <<>>, port |-> "", sch |-> "other"]      \* "path:" is a scheme
    ELSE IF Slash(s[1]) /\ Len(s) >= 2 /\ Slash(s[2]) THEN BHost(BAuthority(SkipSlashes(s)), "base")                       \* protocol-relative
    ELSE [kind |-> "same", host |-> <<>>, port |-> "", sch |-> "base"]

Safe(r, wl) == r.kind \in {"same", "invalid"} \/ (r.kind = "host" /\ HostAllowed(r.host, wl) /\ PortPermitted(r.port, r.sch, wl))

\* ---- TLC ------------------------------------------------------------------------------------------
VARIABLE c
\* scheme / host / port interplay (default ports, several ports, userinfo) enumerated structurally on top of the grammar
PortStrs == { <<sch, "sl", "sl">> \o h \o p \o t :
                sch \in {"http", "https", "HTTPS", "hTtP"},
                h \in {<<"good">>, <<"evil">>, <<"evil", "at", "good">>, <<"good", "at", "evil">>, <<"seg", "dot", "good">>, <<"v6">>, <<"v6map">>, <<"good", "at", "v6">>},
                p \in {<<>>, <<"col">>, <<"col", "p80">>, <<"col", "p443">>, <<"col", "port">>, <<"col", "p80", "col", "p443">>, <<"col", "p443", "at", "good">>},
                t \in {<<>>, <<"sl">>, <<"sl", "seg">>, <<"q", "seg">>, <<"h">>, <<"bs", "evil">>,
                       \* paths that are themselves protocol-relative or back-slashed (dangerous the moment anybody strips scheme and host)
                       <<"sl", "sl", "evil">>, <<"sl", "sl", "evil", "sl", "seg">>, <<"sl", "bs", "evil">>, <<"sl", "tab", "sl", "evil">>} }
\* (the grammar strings are enumerated position by position: TLC refuses to build sets of more than 10^6 elements)
T == Tokens
\* plain same-site paths and queries with escapes (the byte-for-byte clause)
\* (pfxseg: a first segment that merely STARTS like the proxy prefix - "/oauth2-docs/..." is an application path like any other)
PlainStrs == { <<"sl", "pfxseg">>, <<"sl", "pfxseg", "sl", "seg">>, <<"sl", "pfxseg", "sl", "seg", "q", "seg", "eq", "seg">>, <<"sl", "pfxseg", "q", "seg", "eq", "seg">> } \cup
             { <<"sl", "seg">> \o a \o b : a \in {<<>>, <<"p2f", "seg">>, <<"pct25">>, <<"plus", "seg">>, <<"sl", "seg", "pct26">>},
                                            b \in {<<>>, <<"q", "seg", "eq", "seg">>, <<"q", "seg", "eq", "seg", "pct26", "seg", "pct3D", "seg", "amp1", "seg", "eq", "plus">>,
                                                    <<"q", "seg", "eq", "pct25", "p2f">>, <<"q", "plus", "eq", "seg", "plus", "seg">>} }
\* fragments are inert for a browser but not for whoever cleans the path of a Location: dot segments and back-slashes after '#'
FragStrs == { hd \o <<"h">> \o t : hd \in {<<"sl", "seg">>, <<"sl">>, <<"sl", "seg", "sl", "seg">>},
                                   t \in {<<"sl", "dd", "sl", "bs", "evil">>, <<"sl", "dd", "sl", "bs", "evil", "sl">>, <<"sl", "dd", "sl", "dd", "sl", "bs", "evil">>,
                                          <<"sl", "dd", "sl", "sl", "evil">>, <<"sl", "dd", "sl", "dd", "sl", "sl", "evil", "sl">>, <<"dd", "bs", "evil">>,
                                          <<"sl", "dd", "bs", "evil">>, <<"sl", "seg">>, <<"sl", "seg", "sl", "sl", "seg">>} }
Init == \E wl \in WLs :
        \/ \E s \in PortStrs \cup PlainStrs \cup FragStrs : c = [s |-> s, wl |-> wl]
        \/ MaxLen >= 1 /\ \E a \in T : c = [s |-> <<a>>, wl |-> wl]
        \/ MaxLen >= 2 /\ \E a \in T, b \in T : c = [s |-> <<a, b>>, wl |-> wl]
        \/ MaxLen >= 3 /\ \E a \in T, b \in T, d \in T : c = [s |-> <<a, b, d>>, wl |-> wl]
        \/ MaxLen >= 4 /\ \E a \in T, b \in T, d \in T, e \in T : c = [s |-> <<a, b, d, e>>, wl |-> wl]
        \/ MaxLen >= 5 /\ \E a \in T, b \in T, d \in T, e \in T, f \in T : c = [s |-> <<a, b, d, e, f>>, wl |-> wl]
        \/ MaxLen >= 6 /\ \E a \in T, b \in T, d \in T, e \in T, f \in T, g \in T : c = [s |-> <<a, b, d, e, f, g>>, wl |-> wl]
Next == UNCHANGED c
\* random longer strings: a plausible head followed by RandLen tokens drawn from the whole alphabet (TLC's RandomElement, reproducible
\* with -seed); RandN draws per head and whitelist shape
AllTokens == Tokens \cup {"port", "p80", "p443", "HTTPS", "hTtP", "v6", "v6map"}
Heads == { <<>>, <<"sl">>, <<"sl", "sl">>, <<"sl", "bs">>, <<"bs", "sl">>, <<"http", "sl", "sl">>, <<"https", "sl", "sl">>, <<"https", "sl", "sl", "good">>,
           <<"https", "sl", "sl", "good", "col">>, <<"https", "sl", "sl", "evil", "at", "good">>, <<"sl", "seg", "sl">>, <<"https", "sl", "bs">>, <<"hTtP", "sl", "sl">> }
InitRandom == \E k \in 1..RandN, hd \in Heads, wl \in WLs, n \in 1..RandLen :
                 c = [s |-> hd \o [j \in 1..n |-> RandomElement(AllTokens)], wl |-> wl]
C06_NoOpenRedirect == Impl_Valid(c.s, c.wl) => Safe(BrowserResolve(c.s), c.wl)

\* a plain same-site path and query: where the user lands after login, byte for byte
\* (percent-escapes, '+', '=' and '&' are ordinary characters of a path or query: they must come back as they were sent)
PlainTok == {"sl", "seg", "pfxseg", "q", "p2f", "pct26", "pct25", "pct3D", "plus", "eq", "amp1"}
Plain(s) == /\ s # <<>> /\ s[1] = "sl" /\ \A i \in 1..Len(s) : s[i] \in PlainTok
            /\ \A i \in 1..(Len(s) - 1) : ~(s[i] = "sl" /\ s[i+1] = "sl")
            /\ Cardinality({i \in 1..Len(s) : s[i] = "q"}) <= 1
\* an unsafe string must be refused by the real validator; what the endpoints emit for an accepted string is judged separately
CaseRec == [fam |-> "redirect", in |-> c,
            req |-> (IF Safe(BrowserResolve(c.s), c.wl) THEN [panic |-> FALSE] ELSE [accepted |-> FALSE, panic |-> FALSE])
                    @@ (IF Plain(c.s) THEN [accepted |-> TRUE, landsOnInput |-> TRUE] ELSE <<>>),
            impl |-> [accepted |-> Impl_Valid(c.s, c.wl)], safe |-> Safe(BrowserResolve(c.s), c.wl),
            \* the structurally built strings are always sent through the endpoints when the real validator accepts them (the grammar's are sampled)
            must |-> c.s \in PortStrs \cup PlainStrs \cup FragStrs]
EmitVocab == JsonSerialize("vocab.json", Vocab)
\* only what matters is emitted: strings the model accepts, plus unsafe strings (the real validator must refuse those)
EmitCase  == (Impl_Valid(c.s, c.wl) \/ ~Safe(BrowserResolve(c.s), c.wl) \/ c.s \in FragStrs) => CSVWrite("%1$s", <<ToJson(CaseRec)>>, "cases.ndjson")
=============================================================================
