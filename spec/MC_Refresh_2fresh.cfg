CONSTANTS
  Reqs = {1, 2}
  Mode = "ok"
  StartStale = FALSE
  LockExpires = FALSE
  MaxRetry = 1
  UseLock = TRUE
  ReloadAfterLock = TRUE
  SignOuts = {}
  SignOutRefreshes = TRUE
INIT Init
NEXT Next
INVARIANTS SignedOutStays NoStaleServe FailClosed NewTokensVisible OneRefresh AllServed EmitCase
CHECK_DEADLOCK FALSE
