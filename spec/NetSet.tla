------------------------------- MODULE NetSet -------------------------------
(* C15 (third clause): trusted-IP exemption.                                  *)
(* A 6-bit address universe U = 0..63 is embedded three times:                *)
(*   IPv4 192.0.2.64+x, IPv4-mapped ::ffff:192.0.2.(64+x) (dotted and hex),   *)
(*   IPv6 2001:db8::(0x40+x).                                                 *)
(* Req_Trusted - CIDR membership.  Impl_Trusted - pkg/ip/net_set.go: one hash *)
(* set of masked base addresses per (family, prefix length).                  *)
EXTENDS Naturals, Sequences, FiniteSets, TLC, Json, CSV

CONSTANTS Tier

Vocab == [ atoms |-> [ none |-> "" ] ]

Bits == 6
U    == 0..63
Pow2(n) == IF n = 0 THEN 1 ELSE IF n = 1 THEN 2 ELSE IF n = 2 THEN 4 ELSE IF n = 3 THEN 8
           ELSE IF n = 4 THEN 16 ELSE IF n = 5 THEN 32 ELSE 64
Mask(x, len) == (x \div Pow2(Bits - len)) * Pow2(Bits - len)

\* a network: prefix of the universe (fam v4/v6, base aligned), a single host, or the whole family
Prefixes(fam) == UNION { {[fam |-> fam, base |-> b, len |-> l] : b \in {x \in U : Mask(x, l) = x}} : l \in 0..Bits }
Hosts   == {[fam |-> f, base |-> b, len |-> Bits] : f \in {"host4", "host6"}, b \in {0, 21, 63}}
Alls    == {[fam |-> "all4", base |-> 0, len |-> 0], [fam |-> "all6", base |-> 0, len |-> 0]}
Nets1   == Prefixes("v4") \cup Prefixes("v6") \cup Hosts \cup Alls

N(f, b, l) == [fam |-> f, base |-> b, len |-> l]
\* base list for pairs / triples: nested, sibling, adjacent, mixed family
PairBase == { N("v4", 0, 1), N("v4", 16, 2), N("v4", 20, 4), N("v4", 21, 6), N("v4", 32, 1), N("v4", 24, 3),
              N("v6", 0, 1), N("v6", 16, 2), N("v6", 20, 4), N("v6", 48, 2), N("host4", 63, 6), N("host6", 0, 6) }

WellFormed(nt) == nt \notin {"garbage", "absent"}
Family(n) == IF n.fam \in {"v4", "host4", "all4"} THEN 4 ELSE 6
NotationFamily(nt) == IF nt = "v6" THEN 6 ELSE 4      \* v4, mapped, mappedhex denote IPv4 addresses

\* ---- requirement: CIDR membership, independent of notation within a family -------------
Covers(n, x) == IF n.fam \in {"all4", "all6"} THEN TRUE ELSE Mask(x, n.len) = n.base
Req_Trusted(x, nt, nets) == WellFormed(nt) /\ \E i \in 1..Len(nets) : Family(nets[i]) = NotationFamily(nt) /\ Covers(nets[i], x)

\* ---- implementation: per-family list of (mask length -> set of masked bases) ------------
\* AddIPNet files a network under its family and prefix length; Has masks the address with every
\* length present and looks the result up.  "all" networks have concrete length 0 (a different
\* length than any universe prefix), modelled as key 99.
Key(n) == IF n.fam \in {"all4", "all6"} THEN 99 ELSE n.len
MapsOf(nets, fam) == {Key(nets[i]) : i \in {j \in 1..Len(nets) : Family(nets[j]) = fam}}
Stored(nets, fam, k) == {nets[i].base : i \in {j \in 1..Len(nets) : Family(nets[j]) = fam /\ Key(nets[j]) = k}}
Impl_Trusted(x, nt, nets) ==
    LET fam == NotationFamily(nt)
    IN WellFormed(nt) /\ \E k \in MapsOf(nets, fam) : IF k = 99 THEN TRUE ELSE Mask(x, k) \in Stored(nets, fam, k)

\* ---- cases -------------------------------------------------------------------------------
\* "garbage": a header value that is not an address ("unknown, 203.0.113.7"); "absent": the configured header is missing
Notations == {"v4", "mapped", "mappedhex", "v6", "garbage", "absent"}

Sources   == {"remote", "X-Real-IP", "X-Forwarded-For"}
\* peer: is the directly connected peer (RemoteAddr) itself inside the first configured network?  In reverse-proxy mode only the
\* configured header speaks for the client: the peer's own address must not matter
Mk(x, nt, nets, src, lvl, peer) == [addr |-> x, notation |-> nt, nets |-> nets, source |-> src, level |-> lvl, peer |-> peer]

NetSeqs == {<<n>> : n \in Nets1}
              \cup {<<p[1], p[2]>> : p \in {q \in PairBase \X PairBase : q[1] # q[2]}}
              \cup (IF Tier = "thorough"
                    THEN {<<p[1], p[2], p[3]>> : p \in {q \in PairBase \X PairBase \X PairBase : q[1] # q[2] /\ q[2] # q[3] /\ q[1] # q[3]}}
                    ELSE {})

InScope(c) ==
    /\ (c.level = "fn" => c.source = "remote")
    /\ (~WellFormed(c.notation) => c.level = "e2e" /\ c.source # "remote" /\ c.addr = 0 /\ Len(c.nets) = 1)
    /\ (c.peer = "trusted" => c.level = "e2e" /\ c.source # "remote" /\ Len(c.nets) = 1 /\ c.nets[1].fam \in {"v4", "v6"}
                              /\ (WellFormed(c.notation) => c.addr \in {0, 21, 63}))
    \* end-to-end: single networks of a few lengths and all pairs, addresses at and next to the edges
    /\ (c.level = "e2e" => /\ Len(c.nets) <= 2
                            /\ (Len(c.nets) = 1 => c.nets[1].len \in {0, 1, 3, 5, 6})
                            /\ (Tier = "quick" => c.source # "X-Forwarded-For" \/ Len(c.nets) = 1)
                            /\ (Tier = "quick" /\ Len(c.nets) = 2 => c.addr \in {0, 15, 16, 19, 20, 21, 22, 23, 24, 31, 32, 47, 48, 63}))
    /\ (Tier = "quick" /\ Len(c.nets) = 1 /\ c.level = "e2e" => c.nets[1].base \in {0, 16, 20, 21, 32, 48, 62, 63})

VARIABLE c
Init == \E x \in U, nt \in Notations, nets \in NetSeqs, src \in Sources, lvl \in {"fn", "e2e"}, peer \in {"untrusted", "trusted"} :
          c = Mk(x, nt, nets, src, lvl, peer) /\ InScope(c)
Next == UNCHANGED c

ImplMeetsReq == Impl_Trusted(c.addr, c.notation, c.nets) = Req_Trusted(c.addr, c.notation, c.nets)

CaseRec(d) == [fam |-> "c15net", in |-> d,
               req  |-> [trusted |-> Req_Trusted(d.addr, d.notation, d.nets), panic |-> FALSE],
               impl |-> [trusted |-> Impl_Trusted(d.addr, d.notation, d.nets)]]
EmitVocab == JsonSerialize("vocab.json", Vocab)
EmitCase  == CSVWrite("%1$s", <<ToJson(CaseRec(c))>>, "cases.ndjson")
=============================================================================
