#!/bin/bash
# usage: tools/try_seed_wt.sh <patch.diff> <tag> <checks...>   -- like try_seed.sh but on a scratch worktree of /repo (VERIF_REPO), so that
# several seeds can be tried at the same time and /repo itself is never patched; prints one line per check.
set -u
patch="$1"; tag="$2"; shift 2
ROOT="$(cd "$(dirname "$0")/.." && pwd)"
wt=/tmp/sd_wt_$tag
git -C /repo worktree remove --force $wt 2>/dev/null
git -C /repo worktree add -q --detach $wt HEAD || exit 2
git -C $wt apply "$patch" || { echo "$tag: patch does not apply"; git -C /repo worktree remove --force $wt; exit 2; }
mkdir -p "$ROOT/.work/sd/$tag"
for p in "$@"; do
  ( cd "$ROOT" && VERIF_REPO=$wt VERIF_EVIDENCE_DIR="$ROOT/.work/sd/$tag/ev" VERIF_REPLAY_DIR="$ROOT/.work/sd/$tag/rp" ./check $p --tier "${TIER:-quick}" > "$ROOT/.work/sd/$tag/$p.log" 2>&1 ); rc=$?
  echo "$tag $p rc=$rc $(grep -c '^VIOLATION' "$ROOT/.work/sd/$tag/$p.log") violations: $(grep -m1 -E '^(VIOLATION|NO-VERDICT)' "$ROOT/.work/sd/$tag/$p.log" | cut -c1-200)"
done
cd /; git -C /repo worktree remove --force $wt
