CONSTANTS
  MaxPath = 5
  Tier = "thorough"
INIT Init
NEXT Next
INVARIANTS ImplMeetsReq EmitCase
CHECK_DEADLOCK FALSE
