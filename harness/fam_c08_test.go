//go:build verif

package main

import (
	"path/filepath"
	"fmt"
	mrand "math/rand"
	"net/url"
	"os"
	"strings"
	"testing"
	"time"
)

func vpSeqList(x interface{}) [][]string {
	var out [][]string
	if l, ok := x.([]interface{}); ok {
		for _, e := range l {
			out = append(out, vpSeq(e))
		}
	}
	return out
}

func init() {
	// c08file: the authenticated-e-mails file is rewritten at run time between login and later requests
	vpRegister("c08file", func(t *testing.T, env *vpEnv) {
		for ci := range env.cases {
			c := &env.cases[ci]
			render := func(list []string, version int, emptyStyle string) string {
				var sb strings.Builder
				for _, u := range list {
					sb.WriteString(u + "@example.com\n")
				}
				if len(list) > 0 {
					sb.WriteString(fmt.Sprintf("sentinel-v%d@vp.test\n", version))
				} else if emptyStyle == "comment" {
					sb.WriteString("# nobody is allowed at the moment\n")
				}
				return sb.String()
			}
			v1, v2 := vpL(c.In, "v1"), vpL(c.In, "v2")
			content := render(v1, 1, "empty")
			w, err := vpNewWorld(&vpCfg{EmailDomains: []string{}, EmailsFile: &content, EmailsViaSymlink: vpS(c.In, "style") == "symlink"})
			if err != nil {
				env.emit(vpOut{ID: c.ID, Err: "world: " + err.Error()})
				continue
			}
			w.idp.addUser("alice", vpUser{Sub: "sub-alice", Email: "alice@example.com", Groups: []string{"g1"}, Username: "alice"})
			jar := vpNewJar()
			var steps []map[string]interface{}
			for _, st := range c.Steps {
				obs := map[string]interface{}{}
				switch st.A {
				case "login":
					j := jar
					if vpS(st.Args, "when") == "after" {
						j = vpNewJar()
					}
					cb, err := w.login(j, "alice", "")
					if err != nil {
						obs["diverged"] = true
						break
					}
					obs["session"] = w.sessionCookieEffect(cb)
				case "rewrite":
					text := render(v2, 2, vpS(c.In, "emptyStyle"))
					if vpS(c.In, "style") == "symlink" {
						// publish version 2: new data directory, the "current" link swapped atomically, the old directory removed
						os.MkdirAll(filepath.Join(w.emailsDir, "data_v2"), 0o755)
						os.WriteFile(filepath.Join(w.emailsDir, "data_v2", "emails.txt"), []byte(text), 0o600)
						os.Symlink("data_v2", filepath.Join(w.emailsDir, "current.tmp"))
						os.Rename(filepath.Join(w.emailsDir, "current.tmp"), filepath.Join(w.emailsDir, "current"))
						os.RemoveAll(filepath.Join(w.emailsDir, "data_v1"))
					} else if vpS(c.In, "style") == "inplace" {
						os.WriteFile(w.emailsPath, []byte(text), 0o600) // truncate and write
					} else {
						tmp := w.emailsPath + ".tmp"
						os.WriteFile(tmp, []byte(text), 0o600)
						os.Rename(tmp, w.emailsPath)
					}
					// completion: the new version's sentinel is in force, or (nobody listed any more) the old one is gone
					deadline := time.Now().Add(5 * time.Second)
					done := false
					for time.Now().Before(deadline) {
						if len(v2) > 0 && w.proxy.Validator("sentinel-v2@vp.test") {
							done = true
							break
						}
						if len(v2) == 0 && !w.proxy.Validator("sentinel-v1@vp.test") {
							done = true
							break
						}
						time.Sleep(2 * time.Millisecond)
					}
					obs["reloaded"] = done
				case "request":
					if !vpB(st.Args, "holds") {
						obs["skipped"] = true
						break
					}
					r := w.get(jar, "/private")
					obs["served"], obs["status"], obs["session"] = r.UpHits > 0, r.Status, w.sessionCookieEffect(r)
				}
				steps = append(steps, obs)
			}
			env.emit(vpOut{ID: c.ID, Steps: steps})
			w.close()
		}
	})


	vpRegister("c08", func(t *testing.T, env *vpEnv) {
		voc, err := vpLoadVocab()
		if err != nil {
			t.Fatalf("vocab: %v", err)
		}
		keys, groups := vpGroup(env.cases, func(c *vpCase) string {
			in := c.In
			k := vpS(in, "kind")
			g := ""
			if k == "htpasswd" {
				g = vpJSON(in["groups"])
			}
			return fmt.Sprint(k == "htpasswd", g, vpJSON(in["rules"]), vpJSON(in["file"]), vpJSON(in["allowed"]), in["store"], in["pe"])
		})
		vpRunGroups(keys, groups, env.seed, func(rng *mrand.Rand, key string, cs []*vpCase) {
			in0 := cs[0].In
			ht := vpS(in0, "kind") == "htpasswd"
			mkCfg := func(permissive bool) *vpCfg {
				cfg := &vpCfg{Store: vpS(in0, "store"), EmailDomains: []string{}}
				if permissive {
					cfg.EmailDomains = []string{"*"}
				} else {
					for _, r := range vpSeqList(in0["rules"]) {
						cfg.EmailDomains = append(cfg.EmailDomains, voc.text(r))
					}
					f := vpM(in0, "file")
					if vpB(f, "on") {
						var lines []string
						for _, e := range vpSeqList(f["entries"]) {
							lines = append(lines, voc.text(e))
						}
						content := strings.Join(lines, "\n")
						if len(lines) > 0 {
							content += "\n"
						}
						cfg.EmailsFile = &content
					}
					cfg.AllowedGroups = vpL(in0, "allowed")
				}
				if ht {
					cfg.Htpasswd = true
					cfg.HtpasswdGroups = vpL(in0, "groups")
				}
				if vpB(in0, "pe") && !permissive {
					cfg.Htpasswd = true
					cfg.Legacy = map[string]bool{"preferEmailToUser": true}
				}
				return cfg
			}
			fail := func(msg string) {
				for _, c := range cs {
					env.emit(vpOut{ID: c.ID, Err: msg})
				}
			}
			cfg := mkCfg(false)
			w, err := vpNewWorld(cfg)
			if err != nil {
				fail("world: " + err.Error())
				return
			}
			defer w.close()
			// permissive twin sharing secret and store: where valid sessions of arbitrary identities come from
			cfg0 := mkCfg(true)
			cfg0.Htpasswd = false
			cfg0.shareRedis = w.mr
			w0, err := vpNewWorld(cfg0)
			if err != nil {
				fail("twin world: " + err.Error())
				return
			}
			defer w0.close()
			for i, c := range cs {
				in := c.In
				kind := vpS(in, "kind")
				email := voc.text(vpSeq(in["email"]))
				uname := fmt.Sprintf("u%d", i)
				u := vpUser{Sub: "sub-" + uname, Email: email, Groups: vpL(in, "groups"), Username: uname}
				if len(u.Groups) == 0 {
					u.Groups = nil
				}
				obs := map[string]interface{}{}
				conc := map[string]interface{}{"email": email, "groups": u.Groups, "email_domains": cfg.EmailDomains, "allowed_groups": cfg.AllowedGroups}
				if cfg.EmailsFile != nil {
					conc["emails_file"] = *cfg.EmailsFile
				}
				switch kind {
				case "login":
					w.idp.addUser(uname, u)
					j := vpNewJar()
					cb, err := w.login(j, uname, "")
					if err != nil {
						env.emit(vpOut{ID: c.ID, Err: "login: " + err.Error()})
						continue
					}
					obs["session"] = w.sessionCookieEffect(cb)
					obs["status"] = cb.Status
					// a session that exists must also work; one that does not must not
					r := w.get(j, "/private")
					obs["servedAfter"] = r.UpHits > 0
				case "request", "authonly", "htpasswd":
					j := vpNewJar()
					if kind == "htpasswd" {
						form := url.Values{"username": {"hpuser"}, "password": {"hppass"}}
						// manual sign-in applies no e-mail/group rule, so the proxy under test can issue the session itself
						r := w.do(vpReq{Method: "POST", Target: w.prefix() + "/sign_in", Body: form.Encode(), Form: true})
						j.applyAll(r)
						if w.sessionCookieEffect(r) != "set" {
							env.emit(vpOut{ID: c.ID, Err: fmt.Sprintf("htpasswd sign-in did not create a session: %d", r.Status)})
							continue
						}
					} else {
						w0.idp.addUser(uname, u)
						w0.idp.mutateClaims = nil
						if vpB(in, "big") {
							// a session the cookie store has to split (no cookie then carries the base name)
							pad := vpRandPad(1800)
							w0.idp.mutateClaims = func(kind string, cl map[string]interface{}) { cl["pad"] = pad }
						}
						cb, err := w0.login(j, uname, "")
						w0.idp.mutateClaims = nil
						if err != nil || w0.sessionCookieEffect(cb) != "set" {
							env.emit(vpOut{ID: c.ID, Err: fmt.Sprintf("twin login failed: %v %d", err, cb.Status)})
							continue
						}
					}
					target := "/private"
					ql0, _ := in["query"].([]interface{})
					authonly := kind == "authonly" || (kind == "htpasswd" && len(ql0) > 0)
					if authonly {
						q := url.Values{}
						if ql, ok := in["query"].([]interface{}); ok {
							for _, e := range ql {
								em := e.(map[string]interface{})
								var items []string
								for _, it := range vpSeqList(em["items"]) {
									items = append(items, voc.text(it))
								}
								q.Add(vpS(em, "p"), strings.Join(items, ","))
							}
						}
						target = w.prefix() + "/auth"
						if len(q) > 0 {
							target += "?" + q.Encode()
						}
					}
					r := w.get(j, target)
					obs["status"] = r.Status
					obs["session"] = w.sessionCookieEffect(r)
					if authonly {
						obs["served"] = r.Status == 202
					} else {
						obs["served"] = r.UpHits > 0
					}
					conc["target"] = target
				}
				env.emit(vpOut{ID: c.ID, Obs: obs, Conc: conc})
			}
		})
	})
}
