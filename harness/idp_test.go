//go:build verif

package main

// Fake identity provider: discovery, JWKS, token endpoint (authorization_code and
// refresh_token grants, PKCE verification, rotating single-use refresh tokens, nonce
// echo policy), userinfo. Every call is logged; every response can be replaced by a
// fault; token-endpoint calls can be gated (scheduler).

import (
	"bufio"
	"crypto"
	"crypto/hmac"
	"crypto/rand"
	"crypto/rsa"
	"crypto/sha256"
	"crypto/x509"
	"encoding/base64"
	"encoding/json"
	"encoding/pem"
	"fmt"
	"math/big"
	"net"
	"net/http"
	"net/http/httptest"
	"net/url"
	"strings"
	"sync"
	"time"
)

const (
	vpClientID      = "vp-client"
	vpExtraAudience = "vp-extra-aud"
)

var (
	vpKeyMain  *rsa.PrivateKey
	vpKeyOther *rsa.PrivateKey
	vpKeyExtra *rsa.PrivateKey
)

func init() {
	var err error
	if vpKeyMain, err = rsa.GenerateKey(rand.Reader, 2048); err != nil {
		panic(err)
	}
	if vpKeyOther, err = rsa.GenerateKey(rand.Reader, 2048); err != nil {
		panic(err)
	}
	if vpKeyExtra, err = rsa.GenerateKey(rand.Reader, 2048); err != nil {
		panic(err)
	}
}

func bufioReader(s string) *bufio.Reader { return bufio.NewReader(strings.NewReader(s)) }

func vpPublicKeyPEM(k *rsa.PublicKey) []byte {
	b, _ := x509.MarshalPKIXPublicKey(k)
	return pem.EncodeToMemory(&pem.Block{Type: "PUBLIC KEY", Bytes: b})
}

func vpB64(b []byte) string { return base64.RawURLEncoding.EncodeToString(b) }

// vpSignJWT builds a compact JWS. alg: RS256 (key), none, HS256 (hmacKey).
func vpSignJWT(alg string, kid string, claims map[string]interface{}, key *rsa.PrivateKey, hmacKey []byte) string {
	hdr := map[string]interface{}{"alg": alg, "typ": "JWT"}
	if kid != "" {
		hdr["kid"] = kid
	}
	hb, _ := json.Marshal(hdr)
	cb, _ := json.Marshal(claims)
	signing := vpB64(hb) + "." + vpB64(cb)
	switch alg {
	case "RS256":
		h := sha256.Sum256([]byte(signing))
		sig, err := rsa.SignPKCS1v15(rand.Reader, key, crypto.SHA256, h[:])
		if err != nil {
			panic(err)
		}
		return signing + "." + vpB64(sig)
	case "HS256":
		m := hmac.New(sha256.New, hmacKey)
		m.Write([]byte(signing))
		return signing + "." + vpB64(m.Sum(nil))
	case "none":
		return signing + "."
	}
	return signing + ".AAAA"
}

// ---------------------------------------------------------------------------------------------

type vpUser struct {
	Sub      string
	Email    string
	Groups   []string
	Username string
}

var vpUsers = map[string]vpUser{
	"alice": {Sub: "sub-alice", Email: "alice@example.com", Groups: []string{"g1", "g2"}, Username: "alice"},
	"bob":   {Sub: "sub-bob", Email: "bob@other.org", Groups: []string{"g3"}, Username: "bobby"},
	"carol": {Sub: "sub-carol", Email: "carol@example.com", Groups: nil, Username: "carol"},
	// identities whose e-mail is not an address: a user name in the e-mail claim / no e-mail claim at all
	"dave": {Sub: "sub-dave", Email: "dave.example.com", Groups: []string{"g1"}, Username: "dave"},
	"erin": {Sub: "erin.example.com", Email: "", Groups: []string{"g1"}, Username: "erin"},
}

type vpCode struct {
	Code        string
	Challenge   string
	Method      string
	Nonce       string // nonce parameter of the authorization request
	State       string
	RedirectURI string
	User        string
	Login       int // index of the authorization request in authLog
	Used        bool
}

type vpIdPCall struct {
	Seq      int
	Endpoint string // discovery | keys | token_code | token_refresh | userinfo | logout
	Params   url.Values
	Outcome  string
	User     string // (refresh grants answered with new tokens) whose session was refreshed
}

type vpAuthReq struct {
	Params url.Values
	Code   string
}

type vpLineage struct {
	User      string
	ValidRT   string // currently valid refresh token ("" none)
	Gen       int    // number of token sets issued
	Nonce     string
	AccessTok string
}

type vpFault struct {
	Kind string // 500 | 400 | reset | stall | empty | truncated | nojson | noidtoken | noaccesstoken | huge | claims:<name>
	N    int    // fire on the N-th call (1-based) to that endpoint kind; 0 => every call
}

type vpIdP struct {
	name string
	srv  *httptest.Server
	key  *rsa.PrivateKey
	kid  string

	mu        sync.Mutex
	seq       int
	calls     []vpIdPCall
	authLog   []vpAuthReq
	codes     map[string]*vpCode
	lineages  map[string]*vpLineage // by lineage id
	rtIndex   map[string]string     // refresh token -> lineage id (including consumed ones)
	atIndex   map[string]string     // access token -> user
	atNonce   map[string]string     // access token -> the nonce of the authorization request it stems from
	epCount   map[string]int
	faults    map[string]*vpFault // endpoint kind -> fault
	noUserinfo bool
	users      map[string]vpUser // per-IdP users (fall back to vpUsers)

	// behaviour knobs
	nonceMode      string                               // echo | other | empty | absent | raw | replay | absent_profile
	otherNonce     string                               // for nonceMode other
	replayToken    string                               // for nonceMode replay: a previously issued id_token
	mutateClaims   func(kind string, c map[string]interface{}) // kind: code | refresh
	signAlg        string                               // RS256 | none | HS256pub | otherkey
	issueRefresh   bool
	rotate         bool
	noDiscovery    bool   // no /.well-known/openid-configuration
	logoutStatus   int    // status of the backend-logout endpoint (0 => 200)
	pkceMisses     int    // redemption attempts without the verifier of the code's challenge
	advertise      string // discovery: code_challenge_methods_supported  both | plain | s256 | absent
	refreshMode    string // ok | fail | unsupported(no RT issued)
	idTokenTTL     int    // seconds
	idTokenOnRefresh bool
	userinfoClaims map[string]interface{} // override
	lastIDToken    string
	garbageIDToken bool
	lastAccessTok  string

	// scheduler gate for token endpoint (refresh)
	gate      func(kind string, form map[string][]string)
	gate2     func(kind string, rt string)
	onRefresh func(ok bool, rt string)
}

func vpNewIdP(name string) *vpIdP {
	p := &vpIdP{name: name, key: vpKeyMain, kid: "k-" + name,
		codes: map[string]*vpCode{}, lineages: map[string]*vpLineage{}, rtIndex: map[string]string{}, atIndex: map[string]string{},
		epCount: map[string]int{}, faults: map[string]*vpFault{},
		nonceMode: "echo", signAlg: "RS256", issueRefresh: true, rotate: true, refreshMode: "ok", idTokenTTL: 3600, idTokenOnRefresh: true}
	if name == "extra" {
		p.key = vpKeyExtra
	}
	if name == "extra0" {
		// an issuer that publishes no discovery document (only <issuer>/.well-known/jwks.json), with a key of its own
		p.key = vpKeyOther
		p.noDiscovery = true
	}
	mux := http.NewServeMux()
	mux.HandleFunc("/.well-known/openid-configuration", p.hDiscovery)
	mux.HandleFunc("/keys", p.hKeys)
	mux.HandleFunc("/.well-known/jwks.json", p.hKeys)
	mux.HandleFunc("/token", p.hToken)
	mux.HandleFunc("/userinfo", p.hUserinfo)
	mux.HandleFunc("/logout", p.hLogout)
	p.srv = httptest.NewServer(mux)
	return p
}

func (p *vpIdP) user(name string) vpUser {
	if u, ok := p.users[name]; ok {
		return u
	}
	return vpUsers[name]
}

func (p *vpIdP) addUser(name string, u vpUser) {
	p.mu.Lock()
	if p.users == nil {
		p.users = map[string]vpUser{}
	}
	p.users[name] = u
	p.mu.Unlock()
}

func (p *vpIdP) close()         { p.srv.CloseClientConnections(); p.srv.Close() }
func (p *vpIdP) issuer() string { return p.srv.URL }

func (p *vpIdP) logCall(ep string, params url.Values, outcome string) {
	p.seq++
	p.calls = append(p.calls, vpIdPCall{Seq: p.seq, Endpoint: ep, Params: params, Outcome: outcome})
}

func (p *vpIdP) codeUnused(code string) bool {
	p.mu.Lock()
	defer p.mu.Unlock()
	c := p.codes[code]
	return c != nil && !c.Used
}

func (p *vpIdP) snapshotCalls() []vpIdPCall {
	p.mu.Lock()
	defer p.mu.Unlock()
	return append([]vpIdPCall(nil), p.calls...)
}

func (p *vpIdP) countCallsOutcome(ep, outcome string, _ interface{}) int {
	p.mu.Lock()
	defer p.mu.Unlock()
	n := 0
	for _, c := range p.calls {
		if c.Endpoint == ep && c.Outcome == outcome {
			n++
		}
	}
	return n
}

// refreshGrants: how many refresh grants the provider has answered with new tokens for sessions of this user
func (p *vpIdP) refreshGrants(user string) int {
	p.mu.Lock()
	defer p.mu.Unlock()
	n := 0
	for _, c := range p.calls {
		if c.Endpoint == "token_refresh" && c.Outcome == "ok" && c.User == user {
			n++
		}
	}
	return n
}

func (p *vpIdP) countCalls(ep string) int {
	p.mu.Lock()
	defer p.mu.Unlock()
	n := 0
	for _, c := range p.calls {
		if c.Endpoint == ep {
			n++
		}
	}
	return n
}

// applyFault: returns true if the response was produced by a fault.
func (p *vpIdP) applyFault(ep string, rw http.ResponseWriter, r *http.Request) bool {
	p.mu.Lock()
	p.epCount[ep]++
	n := p.epCount[ep]
	f := p.faults[ep]
	p.mu.Unlock()
	if f == nil || (f.N != 0 && f.N != n) {
		return false
	}
	switch f.Kind {
	case "500":
		http.Error(rw, "boom", 500)
	case "400":
		rw.Header().Set("Content-Type", "application/json")
		rw.WriteHeader(400)
		rw.Write([]byte(`{"error":"invalid_grant"}`))
	case "reset":
		if hj, ok := rw.(http.Hijacker); ok {
			c, _, _ := hj.Hijack()
			if tc, ok := c.(*net.TCPConn); ok {
				tc.SetLinger(0)
			}
			c.Close()
		}
	case "stall":
		// stall until the client gives up (bounded so a broken client cannot hang the run)
		select {
		case <-r.Context().Done():
		case <-time.After(4 * time.Second):
		}
	case "empty":
		rw.Header().Set("Content-Type", "application/json")
		rw.WriteHeader(200)
	case "truncated":
		rw.Header().Set("Content-Type", "application/json")
		rw.WriteHeader(200)
		rw.Write([]byte(`{"access_token":"abc","id_tok`))
	case "nojson":
		rw.Header().Set("Content-Type", "text/html")
		rw.WriteHeader(200)
		rw.Write([]byte(`<html>not json</html>`))
	case "huge":
		rw.Header().Set("Content-Type", "application/json")
		rw.WriteHeader(200)
		rw.Write([]byte(`{"junk":"`))
		chunk := []byte(strings.Repeat("A", 64*1024))
		for i := 0; i < 160; i++ {
			if _, err := rw.Write(chunk); err != nil {
				break
			}
		}
		rw.Write([]byte(`"}`))
	default:
		return false
	}
	p.mu.Lock()
	p.logCall(ep, nil, "fault:"+f.Kind)
	p.mu.Unlock()
	return true
}

func (p *vpIdP) hDiscovery(rw http.ResponseWriter, r *http.Request) {
	if p.applyFault("discovery", rw, r) {
		return
	}
	if p.noDiscovery {
		http.NotFound(rw, r)
		return
	}
	d := map[string]interface{}{
		"issuer":                                p.issuer(),
		"authorization_endpoint":                p.issuer() + "/authorize",
		"token_endpoint":                        p.issuer() + "/token",
		"jwks_uri":                              p.issuer() + "/keys",
		"id_token_signing_alg_values_supported": []string{"RS256"},
	}
	switch p.advertise {
	case "", "both":
		d["code_challenge_methods_supported"] = []string{"S256", "plain"}
	case "plain":
		d["code_challenge_methods_supported"] = []string{"plain"}
	case "s256":
		d["code_challenge_methods_supported"] = []string{"S256"}
	case "absent":
	}
	if !p.noUserinfo {
		d["userinfo_endpoint"] = p.issuer() + "/userinfo"
	}
	rw.Header().Set("Content-Type", "application/json")
	json.NewEncoder(rw).Encode(d)
}

func (p *vpIdP) hKeys(rw http.ResponseWriter, r *http.Request) {
	if p.applyFault("keys", rw, r) {
		return
	}
	p.mu.Lock()
	p.logCall("keys", nil, "ok")
	p.mu.Unlock()
	pub := p.key.PublicKey
	jwk := map[string]interface{}{
		"kty": "RSA", "alg": "RS256", "use": "sig", "kid": p.kid,
		"n": vpB64(pub.N.Bytes()), "e": vpB64(big.NewInt(int64(pub.E)).Bytes()),
	}
	rw.Header().Set("Content-Type", "application/json")
	json.NewEncoder(rw).Encode(map[string]interface{}{"keys": []interface{}{jwk}})
}

// authorize is what the user's browser does at the IdP: it shows the authorization request
// and gets back a code bound to it. Called by the harness with the Location of the login redirect.
func (p *vpIdP) authorize(loginURL string, user string) (code string, state string, err error) {
	u, err := url.Parse(loginURL)
	if err != nil {
		return "", "", err
	}
	q := u.Query()
	p.mu.Lock()
	defer p.mu.Unlock()
	code = "code-" + vpRandHex(8)
	p.authLog = append(p.authLog, vpAuthReq{Params: q, Code: code})
	p.codes[code] = &vpCode{Code: code, Challenge: q.Get("code_challenge"), Method: q.Get("code_challenge_method"),
		Nonce: q.Get("nonce"), State: q.Get("state"), RedirectURI: q.Get("redirect_uri"), User: user, Login: len(p.authLog) - 1}
	return code, q.Get("state"), nil
}

func vpPKCEOk(method, challenge, verifier string) bool {
	switch method {
	case "":
		return challenge == "" // no challenge registered: verifier ignored
	case "plain":
		return verifier == challenge
	case "S256":
		h := sha256.Sum256([]byte(verifier))
		return vpB64(h[:]) == challenge
	}
	return false
}

func (p *vpIdP) tokenError(rw http.ResponseWriter, code int, e string) {
	rw.Header().Set("Content-Type", "application/json")
	rw.WriteHeader(code)
	fmt.Fprintf(rw, `{"error":%q}`, e)
}

func (p *vpIdP) hToken(rw http.ResponseWriter, r *http.Request) {
	r.ParseForm()
	form := r.PostForm
	kind := "token_code"
	if form.Get("grant_type") == "refresh_token" {
		kind = "token_refresh"
	}
	if g := p.gate2; g != nil {
		g(kind, form.Get("refresh_token"))
	}
	if kind == "token_code" {
		// C05 (ii), seen from the provider: EVERY redemption attempt of a code - also one that will be answered with a fault, also a
		// repeated one - carries exactly the verifier of the challenge the authorization request of that code carried
		p.mu.Lock()
		if c := p.codes[form.Get("code")]; c != nil && c.Challenge != "" && !vpPKCEOk(c.Method, c.Challenge, form.Get("code_verifier")) {
			p.pkceMisses++
		}
		p.mu.Unlock()
	}
	if p.applyFault(kind, rw, r) {
		return
	}
	p.mu.Lock()
	defer p.mu.Unlock()
	switch kind {
	case "token_code":
		c := p.codes[form.Get("code")]
		if c == nil || c.Used {
			p.logCall(kind, form, "bad_code")
			p.tokenError(rw, 400, "invalid_grant")
			return
		}
		if !vpPKCEOk(c.Method, c.Challenge, form.Get("code_verifier")) {
			p.logCall(kind, form, "bad_verifier")
			p.tokenError(rw, 400, "invalid_grant")
			return
		}
		c.Used = true
		lid := "lin-" + vpRandHex(6)
		lin := &vpLineage{User: c.User, Nonce: c.Nonce}
		p.lineages[lid] = lin
		p.logCall(kind, form, "ok")
		p.writeTokens(rw, "code", lid, lin)
	case "token_refresh":
		rt := form.Get("refresh_token")
		lid, known := p.rtIndex[rt]
		if !known || p.refreshMode == "fail" {
			p.logCall(kind, form, "refresh_rejected")
			if p.onRefresh != nil {
				p.onRefresh(false, rt)
			}
			p.tokenError(rw, 400, "invalid_grant")
			return
		}
		lin := p.lineages[lid]
		if lin.ValidRT != rt {
			p.logCall(kind, form, "refresh_reused")
			if p.onRefresh != nil {
				p.onRefresh(false, rt)
			}
			p.tokenError(rw, 400, "invalid_grant")
			return
		}
		p.logCall(kind, form, "ok")
		p.calls[len(p.calls)-1].User = lin.User
		if p.onRefresh != nil {
			p.onRefresh(true, rt)
		}
		p.writeTokens(rw, "refresh", lid, lin)
	}
}

// writeTokens issues a token set for the lineage (p.mu held).
func (p *vpIdP) writeTokens(rw http.ResponseWriter, kind string, lid string, lin *vpLineage) {
	lin.Gen++
	u := p.user(lin.User)
	at := fmt.Sprintf("at-%s-%d-%s", lin.User, lin.Gen, vpRandHex(4))
	lin.AccessTok = at
	p.lastAccessTok = at
	p.atIndex[at] = lin.User
	if p.atNonce == nil {
		p.atNonce = map[string]string{}
	}
	p.atNonce[at] = lin.Nonce
	now := time.Now()
	claims := map[string]interface{}{
		"iss": p.issuer(), "sub": u.Sub, "aud": vpClientID, "azp": vpClientID,
		"iat": now.Unix(), "exp": now.Add(time.Duration(p.idTokenTTL) * time.Second).Unix(),
		"email": u.Email, "email_verified": true,
		"vp_gen": lin.Gen, "vp_lineage": lid,
	}
	if u.Username != "" {
		claims["preferred_username"] = u.Username
	}
	if u.Groups != nil {
		claims["groups"] = u.Groups
	}
	switch p.nonceMode {
	case "echo":
		if lin.Nonce != "" {
			claims["nonce"] = lin.Nonce
		}
	case "other":
		claims["nonce"] = p.otherNonce
	case "empty":
		claims["nonce"] = ""
	case "absent":
	case "raw":
		claims["nonce"] = "raw-" + lin.Nonce
	}
	if p.mutateClaims != nil {
		p.mutateClaims(kind, claims)
	}
	idt := p.sign(claims)
	if p.nonceMode == "replay" && p.replayToken != "" && kind == "code" {
		idt = p.replayToken
	}
	p.lastIDToken = idt
	resp := map[string]interface{}{"access_token": at, "token_type": "Bearer", "expires_in": p.idTokenTTL}
	if kind == "code" || p.idTokenOnRefresh {
		resp["id_token"] = idt
		if p.garbageIDToken {
			resp["id_token"] = "not.a-jwt"
		}
	}
	if p.issueRefresh {
		if p.rotate || lin.ValidRT == "" {
			rt := fmt.Sprintf("rt-%s-%d-%s", lin.User, lin.Gen, vpRandHex(4))
			lin.ValidRT = rt
			p.rtIndex[rt] = lid
		}
		resp["refresh_token"] = lin.ValidRT
	}
	if f := p.faults[kind+"_body"]; f != nil {
		switch f.Kind {
		case "noidtoken":
			delete(resp, "id_token")
		case "noaccesstoken":
			delete(resp, "access_token")
		// member shapes: optional members missing / null / of another JSON type, alone and combined with a missing id_token
		case "noexpires":
			delete(resp, "expires_in")
		case "expires_zero":
			resp["expires_in"] = 0
		case "expires_null":
			resp["expires_in"] = nil
		case "expires_string":
			resp["expires_in"] = "3600"
		case "norefresh":
			delete(resp, "refresh_token")
		case "refresh_null":
			resp["refresh_token"] = nil
		case "notokentype":
			delete(resp, "token_type")
		case "noidtoken_noexpires":
			delete(resp, "id_token")
			delete(resp, "expires_in")
		case "idtoken_null_noexpires":
			resp["id_token"] = nil
			delete(resp, "expires_in")
		case "idtoken_null":
			resp["id_token"] = nil
		case "idtoken_number":
			resp["id_token"] = 7
		case "idtoken_empty":
			resp["id_token"] = ""
		case "access_null":
			resp["access_token"] = nil
		case "access_number":
			resp["access_token"] = 7
		}
	}
	rw.Header().Set("Content-Type", "application/json")
	json.NewEncoder(rw).Encode(resp)
}

func (p *vpIdP) sign(claims map[string]interface{}) string {
	switch p.signAlg {
	case "none":
		return vpSignJWT("none", p.kid, claims, nil, nil)
	case "HS256pub":
		return vpSignJWT("HS256", p.kid, claims, nil, vpPublicKeyPEM(&p.key.PublicKey))
	case "otherkey":
		return vpSignJWT("RS256", p.kid, claims, vpKeyOther, nil)
	}
	return vpSignJWT("RS256", p.kid, claims, p.key, nil)
}

// mintIDToken produces a token outside any flow (bearer tokens).
func (p *vpIdP) mintIDToken(user string, mut func(c map[string]interface{}), alg string) string {
	u := p.user(user)
	now := time.Now()
	claims := map[string]interface{}{
		"iss": p.issuer(), "sub": u.Sub, "aud": vpClientID, "azp": vpClientID,
		"iat": now.Unix(), "exp": now.Add(time.Hour).Unix(),
		"email": u.Email, "email_verified": true,
	}
	if u.Username != "" {
		claims["preferred_username"] = u.Username
	}
	if u.Email == "" {
		delete(claims, "email")
	}
	if p.name == "extra" || p.name == "extra0" {
		claims["aud"] = vpExtraAudience
	}
	if u.Groups != nil {
		claims["groups"] = u.Groups
	}
	if mut != nil {
		mut(claims)
	}
	save := p.signAlg
	if alg != "" {
		p.signAlg = alg
	}
	t := p.sign(claims)
	p.signAlg = save
	return t
}

func (p *vpIdP) hUserinfo(rw http.ResponseWriter, r *http.Request) {
	if p.applyFault("userinfo", rw, r) {
		return
	}
	p.mu.Lock()
	defer p.mu.Unlock()
	at := strings.TrimPrefix(r.Header.Get("Authorization"), "Bearer ")
	user, ok := p.atIndex[at]
	p.logCall("userinfo", url.Values{"access_token": {at}}, fmt.Sprint(ok))
	if !ok {
		rw.WriteHeader(401)
		return
	}
	u := p.user(user)
	out := map[string]interface{}{"sub": u.Sub, "email": u.Email, "email_verified": true, "preferred_username": u.Username, "groups": u.Groups,
		"profile_only": "from-profile"}
	if p.nonceMode == "absent_profile" {
		out["nonce"] = p.atNonce[at] // the ID token has none; the profile document volunteers it
	}
	for k, v := range p.userinfoClaims {
		if v == nil {
			delete(out, k)
		} else {
			out[k] = v
		}
	}
	rw.Header().Set("Content-Type", "application/json")
	json.NewEncoder(rw).Encode(out)
}

func (p *vpIdP) hLogout(rw http.ResponseWriter, r *http.Request) {
	p.mu.Lock()
	p.logCall("logout", r.URL.Query(), "ok")
	st := p.logoutStatus
	p.mu.Unlock()
	if st == 0 {
		st = 200
	}
	if st < 0 {
		// the endpoint is unreachable: the connection is dropped without an answer
		if hj, ok := rw.(http.Hijacker); ok {
			if c, _, err := hj.Hijack(); err == nil {
				c.Close()
				return
			}
		}
	}
	rw.WriteHeader(st)
}
