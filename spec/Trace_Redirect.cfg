CONSTANTS
  MaxLen = 1
  RandN = 1
  RandLen = 1
SPECIFICATION Spec2
INVARIANTS Mon_EmittedSafe
POSTCONDITION TraceAccepted
CHECK_DEADLOCK FALSE
