-------------------------------- MODULE Authz --------------------------------
(* C08: authorisation rules are enforced at login and on every request.        *)
(* E-mails, domains and rules are atom sequences (comma-free concretisation);   *)
(* Low maps an atom to its lower-case twin (ASCII case-insensitive rules).       *)
(* Kinds of case:                                                                *)
(*   login    - a login of the identity under the rules: session iff allowed     *)
(*   request  - a valid session of the identity (created by a permissive twin    *)
(*              proxy sharing secret and store) presented under the rules:       *)
(*              served iff allowed; refused sessions get 401/403 + cookie cleared*)
(*   authonly - same on the auth-only endpoint with query constraints            *)
(*   htpasswd - session without e-mail (manual sign-in): exempt from e-mail rules*)
EXTENDS Naturals, Sequences, FiniteSets, TLC, Json, CSV, Str

CONSTANTS Tier

Vocab == [ atoms |-> [ alice |-> "alice", Alice |-> "Alice", bob |-> "bob", Bob |-> "Bob", plus |-> "+", tag |-> "tag", at |-> "@",
                       dot |-> ".", star |-> "*", example |-> "example", Example |-> "Example", com |-> "com", COM |-> "COM",
                       sub |-> "sub", evil |-> "evil", org |-> "org", other |-> "other", Other |-> "Other",
                       g1 |-> "g1", g2 |-> "g2", g3 |-> "g3", g4 |-> "g4", nil |-> "" ] ]      \* nil: the empty string as a group name
LowMap == [ Alice |-> "alice", Bob |-> "bob", Example |-> "example", COM |-> "com", Other |-> "other" ]
Low(a)   == IF a \in DOMAIN LowMap THEN LowMap[a] ELSE a
LowS(s)  == [i \in 1..Len(s) |-> Low(s[i])]

EX == <<"example", "dot", "com">>
Emails == { <<"alice", "at">> \o EX,
            <<"alice", "plus", "tag", "at">> \o EX,
            <<"Alice", "at", "Example", "dot", "COM">>,
            <<"alice", "at", "sub", "dot">> \o EX,
            <<"alice", "at", "evil">> \o EX,                              \* evilexample.com
            <<"alice", "at">> \o EX \o <<"dot", "evil", "dot", "org">>,     \* example.com.evil.org
            <<"alice", "at", "evil", "dot", "org", "at">> \o EX,           \* two @, last domain example.com
            <<"alice", "at">> \o EX \o <<"at", "evil", "dot", "org">>,      \* two @, last domain evil.org
            <<"bob", "at", "other", "dot", "org">>,
            <<"alice">> }                                                  \* an identity that is no address at all (a subject used as e-mail)

DomainRuleSets == { {}, {EX}, {<<"dot">> \o EX}, {<<"star", "dot">> \o EX}, {<<"star">>}, {<<"Example", "dot", "COM">>},
                    {EX, <<"other", "dot", "org">>}, {<<"evil", "dot", "org">>} }
\* authenticated-emails file: on = FALSE: no file configured; otherwise the set of entries
F(on, es) == [on |-> on, entries |-> es]
NoFile == F(FALSE, {})
Files == { NoFile, F(TRUE, {}), F(TRUE, {<<"alice", "at">> \o EX}), F(TRUE, {<<"Bob", "at", "Other", "dot", "org">>}) }
\* "c1,c2" is ONE group whose name contains a comma (a distinguished name, say): it is neither "c1" nor "c2"
GroupLists    == { <<>>, <<"g1">>, <<"g1", "g2">>, <<"g3">>, <<"nil", "g3">>, <<"c1">>, <<"c1,c2">> }
AllowedGroups == { {}, {"g1"}, {"g2", "g4"}, {"g4"}, {"c1,c2"} }

\* ---- requirement -------------------------------------------------------------------------
DomainOf(e) == Drop(e, LastIndexOf(e, "at"))
RuleMatches(rule, dom) ==            \* both lower-cased
    CASE rule = <<"star">>                          -> TRUE
      [] Len(rule) >= 1 /\ rule[1] = "dot"          -> EndsWith(dom, rule) /\ Len(dom) > Len(rule)     \* proper sub-domain
      [] Len(rule) >= 2 /\ rule[1] = "star"         -> EndsWith(dom, Tail(rule)) /\ Len(dom) > Len(rule) - 1
      [] OTHER                                      -> dom = rule
Req_EmailAllowed(e, rules, file) ==
    /\ e # <<>>
    /\ \/ \E r \in rules : RuleMatches(LowS(r), LowS(DomainOf(e)))
       \/ (file.on /\ LowS(e) \in {LowS(f) : f \in file.entries})
Req_GroupsAllowed(gs, allowed) == allowed = {} \/ (RangeOf(gs) \cap allowed # {})
\* sessions without an e-mail (htpasswd users) are exempt from the e-mail rules
Req_SessionAllowed(e, gs, rules, file, allowed) ==
    (e = <<>> \/ Req_EmailAllowed(e, rules, file)) /\ Req_GroupsAllowed(gs, allowed)
\* a login (through the identity provider) needs an allowed e-mail
Req_LoginAllowed(e, gs, rules, file, allowed) == Req_EmailAllowed(e, rules, file) /\ Req_GroupsAllowed(gs, allowed)

\* auth-only query constraints: q is a sequence of [p, items]; empty items are ignored; a parameter
\* without any non-empty item is no constraint
Items(q, p) == UNION { {q[i].items[k] : k \in {j \in 1..Len(q[i].items) : q[i].items[j] # <<>>}} : i \in {j \in 1..Len(q) : q[j].p = p} }
\* host-style matching of the query constraint (util.IsEndpointAllowed, as documented for domain lists): ".d" and "*.d" admit d itself
\* and every sub-domain of d - never a name that merely ends in the same letters
QDomMatches(it, dom) ==
    CASE Len(it) >= 2 /\ it[1] = "dot"                     -> dom = Tail(it) \/ (EndsWith(dom, it) /\ Len(dom) > Len(it))
      [] Len(it) >= 3 /\ it[1] = "star" /\ it[2] = "dot"   -> dom = Tail(Tail(it)) \/ (EndsWith(dom, Tail(it)) /\ Len(dom) > Len(it) - 1)
      [] OTHER                                            -> dom = it
Req_Query(e, gs, q) ==
    /\ (Items(q, "allowed_groups") = {} \/ \E i \in 1..Len(gs) : <<gs[i]>> \in Items(q, "allowed_groups"))
    /\ (Items(q, "allowed_emails") = {} \/ e \in Items(q, "allowed_emails"))
    \* (an item may be a domain, or ".domain" / "*.domain" for its proper sub-domains - with the label boundary; compared as written)
    /\ (Items(q, "allowed_email_domains") = {} \/ (Len(SelectSeq(e, LAMBDA a : a = "at")) = 1 /\ \E it \in Items(q, "allowed_email_domains") : QDomMatches(it, DomainOf(e))))

P(p, items) == [p |-> p, items |-> items]
A_EX == <<"alice", "at">> \o EX
B_OO == <<"bob", "at", "other", "dot", "org">>
Queries == { <<>>,
             <<P("allowed_groups", <<<<"g1">>>>)>>,
             <<P("allowed_groups", <<<<"g4">>, <<"g1">>>>)>>,
             <<P("allowed_groups", <<<<"g4">>>>), P("allowed_groups", <<<<"g2">>>>)>>,
             <<P("allowed_groups", <<<<>>, <<"g3">>, <<>>>>)>>,
             <<P("allowed_groups", <<<<>>>>)>>,
             <<P("allowed_emails", <<A_EX>>)>>,
             <<P("allowed_emails", <<B_OO, A_EX>>)>>,
             <<P("allowed_emails", <<B_OO>>)>>,
             <<P("allowed_email_domains", <<EX>>)>>,
             <<P("allowed_email_domains", <<<<"other", "dot", "org">>, <<>>>>)>>,
             \* lists with a trailing / leading / doubled comma: the empty item is no entry (nobody's empty e-mail or group matches it)
             <<P("allowed_emails", <<B_OO, <<>>>>)>>,
             <<P("allowed_emails", <<<<>>, <<>>, A_EX>>)>>,
             <<P("allowed_emails", <<<<>>>>)>>,
             <<P("allowed_email_domains", <<EX, <<>>>>)>>,
             <<P("allowed_email_domains", <<<<"dot">> \o EX>>)>>,
             <<P("allowed_email_domains", <<<<"star", "dot">> \o EX>>)>>,
             <<P("allowed_email_domains", <<<<"other", "dot", "org">>, <<"dot">> \o EX>>)>>,
             <<P("allowed_groups", <<<<"g4">>, <<>>>>)>>,
             <<P("allowed_groups", <<<<"g1">>>>), P("allowed_emails", <<B_OO>>)>>,
             <<P("allowed_groups", <<<<"g1">>>>), P("allowed_emails", <<A_EX>>), P("allowed_email_domains", <<EX>>)>>,
             <<P("allowed_groups", <<<<"g4">>>>), P("allowed_emails", <<A_EX>>), P("allowed_email_domains", <<EX>>)>> }

\* ---- cases -------------------------------------------------------------------------------
\* pe: an htpasswd file is configured together with prefer-email-to-user (htpasswd users then carry their NAME in the e-mail field and
\* stay exempt; identities from the provider do not become exempt by looking like one)
\* big: the session is so large that the cookie store splits it over several cookies (none of which carries the base name)
Mk3(k, e, gs, rs, f, al, q, st, pe, big) == [kind |-> k, email |-> e, groups |-> gs, rules |-> rs, file |-> f, allowed |-> al, query |-> q, store |-> st, pe |-> pe, big |-> big]
Mk2(k, e, gs, rs, f, al, q, st, pe) == Mk3(k, e, gs, rs, f, al, q, st, pe, FALSE)
Mk(k, e, gs, rs, f, al, q, st) == Mk2(k, e, gs, rs, f, al, q, st, FALSE)
Kinds == {"login", "request", "authonly", "htpasswd"}
ValidCfg(c) == c.rules # {} \/ c.file.on \/ c.kind = "htpasswd"
InScope(c) ==
    /\ ValidCfg(c)
    /\ (c.big => c.kind \in {"request", "authonly"} /\ c.file = NoFile /\ c.query = <<>> /\ c.allowed \in {{}, {"g1"}} /\ ~c.pe
                  /\ c.rules \in {{<<"star">>}, {EX}})
    /\ (c.pe => c.kind \in {"request", "authonly"} /\ c.rules = {EX} /\ c.file = NoFile /\ c.allowed = {} /\ c.store = "cookie" /\ c.query = <<>>
                 /\ c.groups = <<"g1">>)
    /\ (c.kind \notin {"authonly", "htpasswd"} => c.query = <<>>)
    /\ (c.kind = "htpasswd" /\ c.query # <<>> => c.rules = {EX} /\ c.allowed = {})
    /\ (\E i \in 1..Len(c.groups) : c.groups[i] = "nil") => c.kind = "authonly"
    /\ (c.kind = "htpasswd" => /\ c.email = <<"alice", "at">> \o EX /\ c.file = NoFile     \* e-mail unused: the session has none
                                 /\ c.rules \in {{EX}, {<<"star">>}, {<<"evil", "dot", "org">>}} /\ c.groups \in {<<>>, <<"g1", "g2">>}
                                 /\ c.store = "cookie")
    \* every world with a watched file costs one inotify instance (128 per user): keep those in the tens
    /\ (c.file.on => c.allowed \in {{}, {"g1"}} /\ c.store = "cookie")
    /\ (c.kind = "authonly" => c.file = NoFile /\ c.rules \in {{<<"star">>}, {EX}} /\ c.allowed \in {{}, {"g1"}})
    /\ (c.store = "redis" => c.file = NoFile /\ c.allowed \in {{}, {"g1"}} /\ (Tier = "quick" => c.rules \in {{EX}, {<<"dot">> \o EX}}))
    /\ (Tier = "quick" /\ c.file.on => c.allowed = {} /\ c.groups = <<"g1">>)
    /\ (Tier = "quick" /\ c.kind \in {"login", "request"} /\ c.allowed # {} => c.rules \in {{<<"star">>}, {EX}})

\* ---- rule change at run time: the authenticated-e-mails file is rewritten between login and later requests ----
\* v1 / v2: file contents before / after; alice is the identity; a sentinel entry per version (not shown) lets the harness see
\* that the reload has completed (for an emptied file: that the previous sentinel is gone)
FileVersions == { {}, {"alice"}, {"alice", "bob"}, {"bob"} }
\* style: how the operator rewrites the file - a new file renamed into place, the file truncated and written in place, or (mounted
\* volumes) the configured path is a symlink chain and a version is published by swapping a link and removing the old directory
FileChangeRec(v1, v2, emptyStyle, style) ==
    [fam |-> "c08file", in |-> [v1 |-> SetAsSeq(v1), v2 |-> SetAsSeq(v2), emptyStyle |-> emptyStyle, style |-> style],
     steps |-> << [a |-> "login", args |-> [when |-> "before"], req |-> IF "alice" \in v1 THEN [session |-> "set"] ELSE [session |-> [not |-> "set"]]],
                  [a |-> "rewrite", args |-> [v |-> 2], req |-> [reloaded |-> TRUE]],
                  [a |-> "request", args |-> [holds |-> "alice" \in v1],
                   req |-> IF "alice" \notin v1 THEN [skipped |-> TRUE]
                           ELSE IF "alice" \in v2 THEN [served |-> TRUE]
                           ELSE [served |-> FALSE, status |-> [oneof |-> <<401, 403>>], session |-> "cleared"]],
                  [a |-> "login", args |-> [when |-> "after"], req |-> IF "alice" \in v2 THEN [session |-> "set"] ELSE [session |-> [not |-> "set"]]] >>]

VARIABLE c
Init == \E k \in Kinds, e \in Emails, gs \in GroupLists, rs \in DomainRuleSets, f \in Files, al \in AllowedGroups, q \in Queries,
           st \in {"cookie", "redis"}, pe \in BOOLEAN, big \in BOOLEAN : c = Mk3(k, e, gs, rs, f, al, q, st, pe, big) /\ InScope(c)
Next == UNCHANGED c

Allowed(d) == CASE d.kind = "login"    -> Req_LoginAllowed(d.email, d.groups, d.rules, d.file, d.allowed)
                [] d.kind = "htpasswd" -> Req_SessionAllowed(<<>>, d.groups, d.rules, d.file, d.allowed)
                [] OTHER               -> Req_SessionAllowed(d.email, d.groups, d.rules, d.file, d.allowed)

\* what the harness must observe
Req_Obs(d) ==
    CASE d.kind = "login" ->
           IF Allowed(d) THEN [session |-> "set"] ELSE [session |-> [not |-> "set"]]        \* (how the refusal is presented is not the property's business)
      [] d.kind = "authonly" ->
           IF ~Allowed(d) THEN [served |-> FALSE, status |-> [oneof |-> <<401, 403>>], session |-> "cleared"]
           ELSE IF Req_Query(d.email, d.groups, d.query) THEN [served |-> TRUE, status |-> 202]
           ELSE [served |-> FALSE, status |-> [oneof |-> <<401, 403>>]]
      [] d.kind = "htpasswd" /\ d.query # <<>> ->      \* the e-mail-less session on the auth-only endpoint: an e-mail constraint cannot be met
           IF ~Allowed(d) THEN [served |-> FALSE, status |-> [oneof |-> <<401, 403>>], session |-> "cleared"]
           ELSE IF Req_Query(<<>>, d.groups, d.query) THEN [served |-> TRUE, status |-> 202]
           ELSE [served |-> FALSE, status |-> [oneof |-> <<401, 403>>]]
      [] OTHER ->   \* request, htpasswd
           IF Allowed(d) THEN [served |-> TRUE] ELSE [served |-> FALSE, status |-> [oneof |-> <<401, 403>>], session |-> "cleared"]

CaseRec(d) == [fam |-> "c08",
               in |-> [d EXCEPT !.rules = SetAsSeq(d.rules), !.allowed = SetAsSeq(d.allowed),
                                !.file = [on |-> d.file.on, entries |-> SetAsSeq(d.file.entries)]],
               req |-> Req_Obs(d)]
\* non-vacuity is checked by the orchestrator on the emitted cases (both outcomes of every kind)
EmitVocab == JsonSerialize("vocab.json", Vocab)
EmitCase  == CSVWrite("%1$s", <<ToJson(CaseRec(c))>>, "cases.ndjson")
\* the file-change histories are few: emitted once
EmitFileCases == \A v1 \in FileVersions, v2 \in FileVersions, es \in {"empty", "comment"}, sty \in {"rename", "inplace", "symlink"} :
                    (v1 # v2 /\ (v2 = {} \/ es = "empty")) => CSVWrite("%1$s", <<ToJson(FileChangeRec(v1, v2, es, sty))>>, "cases_file.ndjson")
=============================================================================
