CONSTANTS
  Tier = "quick"
INIT Init
NEXT Next
INVARIANTS EmitCase
CHECK_DEADLOCK FALSE
