CONSTANTS
  MaxPath = 5
  Tier = "thorough"
INIT Init
NEXT Next
INVARIANTS EmitCase
CHECK_DEADLOCK FALSE
