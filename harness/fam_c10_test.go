//go:build verif

package main

import (
	"crypto/rand"
	"encoding/json"
	"fmt"
	mrand "math/rand"
	"net/http"
	"net/http/httptest"
	"reflect"
	"strconv"
	"strings"
	"testing"
	"time"

	middlewareapi "github.com/oauth2-proxy/oauth2-proxy/v7/pkg/apis/middleware"
	sessionsapi "github.com/oauth2-proxy/oauth2-proxy/v7/pkg/apis/sessions"
)

func addScope(req *http.Request, rp bool) *http.Request {
	return middlewareapi.AddRequestScope(req, &middlewareapi.RequestScope{ReverseProxy: rp})
}

const vpAlnum = "ABCDEFGHIJKLMNOPQRSTUVWXYZabcdefghijklmnopqrstuvwxyz0123456789-_"

func vpRandToken(n int) string {
	b := make([]byte, n)
	rand.Read(b)
	for i := range b {
		b[i] = vpAlnum[int(b[i])%len(vpAlnum)]
	}
	return string(b)
}

func vpCookieName(n int) string {
	if n <= 13 {
		return "_oauth2_proxy"
	}
	return "_vp" + strings.Repeat("n", n-3)
}

// storeReq builds a request carrying the jar's cookies, with the request scope the middleware chain would add.
func (w *vpWorld) storeReq(j *vpJar) *http.Request {
	raw := "GET / HTTP/1.1\r\nHost: " + vpHost + "\r\n"
	if h := j.header(); h != "" {
		raw += "Cookie: " + h + "\r\n"
	}
	raw += "\r\n"
	req, _ := http.ReadRequest(bufioReader(raw))
	return middlewareapi.AddRequestScope(req, &middlewareapi.RequestScope{ReverseProxy: w.opts.ReverseProxy})
}

// saveVia saves s through the real store as a response to a request presenting the jar, applies Set-Cookie to the jar.
func (w *vpWorld) saveVia(j *vpJar, s *sessionsapi.SessionState) (nCookies int, maxLen int, err error) {
	rec := httptest.NewRecorder()
	if err = w.proxy.sessionStore.Save(rec, w.storeReq(j), s); err != nil {
		return
	}
	res := rec.Result()
	for _, line := range res.Header.Values("Set-Cookie") {
		if len(line) > maxLen {
			maxLen = len(line)
		}
	}
	for _, c := range res.Cookies() {
		if c.Value != "" && c.MaxAge >= 0 {
			nCookies++
		}
		j.applyCookie(c)
	}
	return
}

func vpMkSession(id int, tokenLen int, rng *mrand.Rand) *sessionsapi.SessionState {
	now := time.Now().Truncate(time.Second)
	exp := now.Add(time.Hour)
	nonce := make([]byte, 32)
	rand.Read(nonce)
	s := &sessionsapi.SessionState{
		CreatedAt: &now, ExpiresOn: &exp,
		AccessToken: vpRandToken(tokenLen), IDToken: "idt-" + vpRandToken(40), RefreshToken: "rt-" + vpRandToken(24),
		Nonce: nonce, Email: fmt.Sprintf("user-%d@example.com", id), User: fmt.Sprintf("user-%d", id),
		PreferredUsername: "Zoë-ユーザー-" + strconv.Itoa(id),
	}
	if id%2 == 0 {
		s.Groups = []string{"grp-α", "g2", ""}
	}
	return s
}

func vpSessionsEqual(a, b *sessionsapi.SessionState) bool {
	if a == nil || b == nil {
		return false
	}
	x, y := *a, *b
	x.Lock, y.Lock, x.Clock, y.Clock = nil, nil, x.Clock, x.Clock
	if x.CreatedAt != nil && y.CreatedAt != nil && !x.CreatedAt.Equal(*y.CreatedAt) {
		return false
	}
	if x.ExpiresOn != nil && y.ExpiresOn != nil && !x.ExpiresOn.Equal(*y.ExpiresOn) {
		return false
	}
	if (x.CreatedAt == nil) != (y.CreatedAt == nil) || (x.ExpiresOn == nil) != (y.ExpiresOn == nil) {
		return false
	}
	x.CreatedAt, y.CreatedAt, x.ExpiresOn, y.ExpiresOn = nil, nil, nil, nil
	if len(x.Groups) == 0 && len(y.Groups) == 0 {
		x.Groups, y.Groups = nil, nil
	}
	return reflect.DeepEqual(x, y)
}

// observeLoad: what the next request of this browser loads. End-to-end (userinfo endpoint through the whole
// middleware chain) and directly through the store for field-by-field comparison.
func (w *vpWorld) observeLoad(j *vpJar, saved *sessionsapi.SessionState) (loaded int, intact bool) {
	r := w.do(vpReq{Target: w.prefix() + "/userinfo", Cookie: j.header()})
	loaded = 0
	if r.Status == 200 {
		var ui struct {
			User   string   `json:"user"`
			Groups []string `json:"groups"`
		}
		json.Unmarshal(r.Body, &ui)
		loaded = vpSaveID(ui.User, ui.Groups)
	}
	got, err := w.proxy.sessionStore.Load(w.storeReq(j))
	direct := 0
	if err == nil && got != nil {
		direct = vpSaveID(got.User, got.Groups)
		if direct < 0 {
			direct = 0
		}
	}
	if direct != loaded {
		return loaded, false
	}
	if saved == nil {
		return loaded, loaded == 0
	}
	return loaded, err == nil && vpSessionsEqual(saved, got)
}

// vpSaveID: which save a loaded session is. A save of the same identity as an earlier one carries that identity's user and e-mail,
// so the number of the save travels in a marker group ("save-<id>"); sessions without the marker are identified by the user name.
func vpSaveID(user string, groups []string) int {
	for _, g := range groups {
		if strings.HasPrefix(g, "save-") {
			n, _ := strconv.Atoi(strings.TrimPrefix(g, "save-"))
			return n
		}
	}
	if strings.HasPrefix(user, "user-") {
		n, _ := strconv.Atoi(strings.TrimPrefix(user, "user-"))
		return n
	}
	return -1
}

// calibrate finds, for k = 1..kmax, the largest access-token length whose session still fits k cookies.
func (w *vpWorld) calibrate(kmax int, rng *mrand.Rand) ([]int, error) {
	count := func(L int) (int, error) {
		n, _, err := w.saveVia(vpNewJar(), vpMkSession(1, L, rng))
		return n, err
	}
	thr := make([]int, kmax+1)
	lo := 0
	for k := 1; k <= kmax; k++ {
		hi := lo + 1
		for {
			n, err := count(hi)
			if err != nil {
				return nil, err
			}
			if n > k {
				break
			}
			hi *= 2
			if hi > 1<<20 {
				return nil, fmt.Errorf("no threshold for %d cookies", k)
			}
		}
		l := lo
		for l+1 < hi {
			m := (l + hi) / 2
			n, err := count(m)
			if err != nil {
				return nil, err
			}
			if n <= k {
				l = m
			} else {
				hi = m
			}
		}
		thr[k] = l
		lo = l
	}
	return thr, nil
}

func init() {
	// c10: save/clear histories against a browser jar
	vpRegister("c10", func(t *testing.T, env *vpEnv) {
		keys, groups := vpGroup(env.cases, func(c *vpCase) string { return fmt.Sprint(c.In["store"], c.In["nameLen"]) })
		vpRunGroups(keys, groups, env.seed, func(rng *mrand.Rand, key string, cs []*vpCase) {
			in0 := cs[0].In
			cfg := &vpCfg{Store: vpS(in0, "store"), CookieName: vpCookieName(vpI(in0, "nameLen"))}
			w, err := vpNewWorld(cfg)
			if err != nil {
				for _, c := range cs {
					env.emit(vpOut{ID: c.ID, Err: "world: " + err.Error()})
				}
				return
			}
			defer w.close()
			// thresholds are those of the cookie store with the same cookie options (the ticket of the Redis store never splits)
			cw := w
			if cfg.Store != "cookie" {
				cw, err = vpNewWorld(&vpCfg{Store: "cookie", CookieName: cfg.CookieName})
				if err != nil {
					return
				}
				defer cw.close()
			}
			thr, err := cw.calibrate(4, rng)
			if err != nil {
				for _, c := range cs {
					env.emit(vpOut{ID: c.ID, Err: "calibrate: " + err.Error()})
				}
				return
			}
			for _, c := range cs {
				jar := vpNewJar()
				var steps []map[string]interface{}
				var conc []interface{}
				var last *sessionsapi.SessionState
				var ident *sessionsapi.SessionState
				before := ""
				for _, st := range c.Steps {
					obs := map[string]interface{}{}
					switch st.A {
					case "save":
						p := vpI(st.Args, "parts")
						id := vpI(st.Args, "id")
						// a length inside class p: near the lower edge, near the upper edge or in between
						lo, hi := thr[p-1]+1, thr[p]
						if p == 1 {
							lo = 0
						}
						var L int
						switch rng.Intn(3) {
						case 0:
							L = lo + rng.Intn(4)
						case 1:
							L = hi - rng.Intn(4)
						default:
							L = lo + rng.Intn(hi-lo+1)
						}
						s := vpMkSession(id, L, rng)
						if vpS(st.Args, "who") == "same" && ident != nil {
							// the same identity saved again (a refresh / repeated login): tokens, groups, nonce differ, user and e-mail do not
							s.User, s.Email = ident.User, ident.Email
						} else {
							ident = s
						}
						if vpS(st.Args, "content") == "rep" {
							// long runs and exact repetitions: kilobytes that compress to almost nothing
							s.AccessToken = strings.Repeat("A", 6000+id)
							s.IDToken = strings.Repeat("header.payload.", 300)
							s.PreferredUsername = strings.Repeat("ü", 1200)
							s.Groups = nil
							for k := 0; k < 600; k++ {
								s.Groups = append(s.Groups, "same-group")
							}
						}
						s.Groups = append(s.Groups, fmt.Sprintf("save-%d", id))
						before = jar.header()
						n, maxLen, err := w.saveVia(jar, s)
						if err != nil {
							obs["error"] = err.Error()
						}
						last = s
						loaded, intact := w.observeLoad(jar, s)
						obs["loaded"], obs["intact"], obs["maxCookie"], obs["parts"] = loaded, intact, maxLen, n
						conc = append(conc, map[string]interface{}{"save": id, "tokenLen": L, "cookies": n, "jar": jar.names()})
					case "inflight":
						// a request that left the browser before the last step (it presents what the jar held then) is answered now;
						// the browser applies the answer - the last save (or clear) must stand
						r := w.do(vpReq{Target: w.prefix() + "/userinfo", Cookie: before})
						jar.applyAll(r)
						loaded, intact := w.observeLoad(jar, last)
						obs["loaded"], obs["intact"] = loaded, intact
						obs["status"] = r.Status
						conc = append(conc, map[string]interface{}{"inflight": true, "jar": jar.names()})
					case "clear":
						before = jar.header()
						r := w.do(vpReq{Target: w.prefix() + "/sign_out", Cookie: jar.header()})
						jar.applyAll(r)
						last = nil
						loaded, _ := w.observeLoad(jar, nil)
						obs["loaded"] = loaded
						obs["status"] = r.Status
						conc = append(conc, map[string]interface{}{"clear": true, "jar": jar.names()})
					}
					steps = append(steps, obs)
				}
				_ = last
				env.emit(vpOut{ID: c.ID, Steps: steps, Conc: map[string]interface{}{"thresholds": thr[1:], "steps": conc, "cookie_name_len": len(w.name)}})
			}
		})
	})

	// c10size: every payload length in a window around each split threshold
	vpRegister("c10size", func(t *testing.T, env *vpEnv) {
		keys, groups := vpGroup(env.cases, func(c *vpCase) string { return fmt.Sprint(c.In["nameLen"], c.In["attrs"], c.In["store"]) })
		vpRunGroups(keys, groups, env.seed, func(rng *mrand.Rand, key string, cs []*vpCase) {
			in0 := cs[0].In
			cfg := &vpCfg{Store: vpS(in0, "store"), CookieName: vpCookieName(vpI(in0, "nameLen"))}
			if vpS(in0, "attrs") == "heavy" {
				cfg.CookieDomains = []string{".a-rather-long-sub-domain.of.example.com"}
				cfg.CookieSameSite = "strict"
				cfg.CookiePath = "/a/long/cookie/path/prefix"
			}
			w, err := vpNewWorld(cfg)
			if err != nil {
				for _, c := range cs {
					env.emit(vpOut{ID: c.ID, Err: "world: " + err.Error()})
				}
				return
			}
			defer w.close()
			thr, err := w.calibrate(3, rng)
			if err != nil {
				for _, c := range cs {
					env.emit(vpOut{ID: c.ID, Err: "calibrate: " + err.Error()})
				}
				return
			}
			for _, c := range cs {
				L := thr[vpI(c.In, "threshold")] + vpI(c.In, "offset")
				if L < 0 {
					L = 0
				}
				jar := vpNewJar()
				s := vpMkSession(1, L, rng)
				n, maxLen, err := w.saveVia(jar, s)
				obs := map[string]interface{}{}
				if err != nil {
					obs["error"] = err.Error()
				}
				// a browser refuses a cookie of more than 4096 bytes: drop such cookies from the jar
				loaded, intact := w.observeLoad(jar, s)
				obs["loaded"], obs["intact"], obs["maxCookie"], obs["parts"] = loaded, intact, maxLen, n
				env.emit(vpOut{ID: c.ID, Obs: obs, Conc: map[string]interface{}{"tokenLen": L, "thresholds": thr[1:], "cookie_name_len": len(w.name)}})
			}
		})
	})
}
