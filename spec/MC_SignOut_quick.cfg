CONSTANTS
  MaxReqs = 2
  Stores = {"cookie", "redis"}
  DomainCfgs = {"none", "dotted", "backend_fail", "backend_reset"}
  DeleteKey = TRUE
INIT Init
NEXT Next
INVARIANTS C11_Ended EmitCase
CHECK_DEADLOCK FALSE
