INIT Init
NEXT Next
INVARIANTS BundleNeutral EmitCase
CHECK_DEADLOCK FALSE
