------------------------------- MODULE Bypass -------------------------------
(* C15 (first clause): skip-auth routes and CORS preflight.                  *)
(*                                                                           *)
(* Req_Exempt  - the requirement, stated on (method, path) only.             *)
(* Impl_Exempt - what oauthproxy.go does: take the effective request URI     *)
(*               (request target, or X-Forwarded-Uri in reverse-proxy mode), *)
(*               cut it at the first '?' or '#', match every rule in order.  *)
(* Impl_ExemptURI - the pre-fix behaviour (regex applied to path+query),     *)
(*               kept as a named deviation: TLC must refute it (selftest).   *)
EXTENDS Naturals, Sequences, FiniteSets, TLC, Json, CSV, Str

CONSTANTS MaxPath,      \* maximal number of atoms in a request path
          Tier          \* "quick" | "thorough"

\* ---- vocabulary (atom -> concrete text; comma-free) -------------------------------------
Vocab == [ atoms |-> [ sl |-> "/", a |-> "api", b |-> "docs", q |-> "?", eq |-> "=", x |-> "xyz", amp |-> "&", h |-> "#" ] ]

PathAtoms == {"sl", "a", "b"}
Methods   == {"GET", "POST", "OPTIONS", "get", "HEAD", "PUT", "DELETE"}

\* normalised paths: start with '/', no empty segment (the router would redirect those)
ValidPath(p) == /\ Len(p) >= 1 /\ p[1] = "sl"
                /\ \A i \in 1..(Len(p) - 1) : ~(p[i] = "sl" /\ p[i+1] = "sl")
\* (what X-Forwarded-Uri carries has not passed the router: it may begin with an empty segment - "//docs/api" is a path, not a host)
SlashyPaths == { <<"sl", "sl", "a">>, <<"sl", "sl", "b", "sl", "a">>, <<"sl", "sl", "b", "sl", "a", "sl", "b">>, <<"sl", "sl", "a", "sl", "b">> }
Paths == {p \in SeqsUpTo(PathAtoms, 1, MaxPath) : ValidPath(p)} \cup SlashyPaths

\* queries embed rule-like fragments; the last one is a fragment (only reachable via X-Forwarded-Uri)
Queries == { <<>>,
             <<"q", "x">>,
             <<"q", "sl", "a">>,
             <<"q", "x", "eq", "sl", "a">>,
             <<"q", "x", "eq", "sl", "a", "sl", "b">>,
             <<"q", "x", "eq", "sl", "b", "amp", "x">> }
Fragments == { <<>>, <<"h", "sl", "a">> }

Pats == { <<"sl", "a">>, <<"sl", "a", "sl", "b">>, <<"sl", "b">> }

\* a rule: method ("" = any), negated, left/right anchored, pattern, legacy (skip_auth_regex) or route
Rules1 == [m : {"", "GET", "POST"}, neg : BOOLEAN, l : BOOLEAN, r : BOOLEAN, pat : Pats, legacy : {FALSE}]
             \cup [m : {""}, neg : {FALSE}, l : BOOLEAN, r : BOOLEAN, pat : Pats, legacy : {TRUE}]

R(m, neg, l, r, pat, legacy) == [m |-> m, neg |-> neg, l |-> l, r |-> r, pat |-> pat, legacy |-> legacy]
PairBase == { R("GET", FALSE, TRUE, TRUE, <<"sl","a">>, FALSE),
              R("", TRUE, TRUE, FALSE, <<"sl","b">>, FALSE),
              R("GET", TRUE, TRUE, FALSE, <<"sl","a">>, FALSE),       \* a second negated rule: each rule exempts on its own, they are not one exclusion list
              R("", FALSE, FALSE, FALSE, <<"sl","a","sl","b">>, FALSE),
              R("POST", FALSE, TRUE, FALSE, <<"sl","a">>, FALSE),
              R("", FALSE, TRUE, TRUE, <<"sl","b">>, TRUE) }

RuleSets == {<<>>} \cup {<<r>> : r \in Rules1}
               \cup {<<pr[1], pr[2]>> : pr \in {x \in PairBase \X PairBase : x[1] # x[2]}}

\* ---- semantics -------------------------------------------------------------------------
Match(rule, s) ==
    CASE rule.l /\ rule.r   -> s = rule.pat
      [] rule.l /\ ~rule.r  -> StartsWith(s, rule.pat)
      [] ~rule.l /\ rule.r  -> EndsWith(s, rule.pat)
      [] OTHER              -> HasSub(s, rule.pat)

RuleExempts(rule, method, s) == (rule.m = "" \/ rule.m = method) /\ (Match(rule, s) # rule.neg)

\* the requirement: method and PATH only
Req_RouteExempt(method, path, rules) == \E i \in 1..Len(rules) : RuleExempts(rules[i], method, path)
Req_Preflight(method, enabled)       == enabled /\ method = "OPTIONS"
Req_Exempt(c) == Req_RouteExempt(c.method, c.path, c.rules) \/ Req_Preflight(c.method, c.preflight)

\* the implementation: operates on the URI string
CutAtQueryOrFragment(uri) ==
    LET iq == IndexOf(uri, "q")
        ih == IndexOf(uri, "h")
        cut == IF iq = 0 THEN ih ELSE IF ih = 0 THEN iq ELSE Min2(iq, ih)
    IN IF cut = 0 THEN uri ELSE Take(uri, cut - 1)
URI(c) == c.path \o c.query \o c.frag
Impl_Exempt(c) ==
    \/ (c.preflight /\ c.method = "OPTIONS")
    \/ \E i \in 1..Len(c.rules) : RuleExempts(c.rules[i], c.method, CutAtQueryOrFragment(URI(c)))
\* named deviation (pre-fix code): regex sees the whole URI
Impl_ExemptURI(c) ==
    \/ (c.preflight /\ c.method = "OPTIONS")
    \/ \E i \in 1..Len(c.rules) : RuleExempts(c.rules[i], c.method, URI(c))

\* ---- case domain -----------------------------------------------------------------------
\* via: "target" = the request target carries path+query;
\*      "xfu"    = reverse-proxy mode, X-Forwarded-Uri carries path+query(+fragment), target is a decoy;
\*      "decoy"  = reverse-proxy OFF, target carries path+query, X-Forwarded-Uri carries a matching path (must be ignored)
\*      "noise_get" / "noise_options" = like "target" (reverse-proxy off) plus the override-style headers some proxies and frameworks
\*                 honour (X-Forwarded-Method, X-HTTP-Method-Override, X-Original-Method naming GET / OPTIONS; X-Original-URL,
\*                 X-Rewrite-URL, X-Forwarded-Path naming a path the rules exempt): "other headers have no influence"
\*      "rp_noise_get" / "rp_noise_options" = like "xfu" (reverse-proxy on) plus the method-override headers
Vias == {"target", "xfu", "decoy", "noise_get", "noise_options", "rp_noise_get", "rp_noise_options"}
NoiseVias == {"noise_get", "noise_options", "rp_noise_get", "rp_noise_options"}
\* cred: "refused" = the request also carries the still valid session cookie of a user whom the authorisation rules refuse (the rules
\*       changed after the login). The Cookie header is one of the "other headers": the exemption does not depend on it.
Creds == {"none", "refused"}
Mk2(m, p, q, f, rs, pf, v, cr) == [method |-> m, path |-> p, query |-> q, frag |-> f, rules |-> rs, preflight |-> pf, via |-> v, cred |-> cr]
Mk(m, p, q, f, rs, pf, v) == Mk2(m, p, q, f, rs, pf, v, "none")

InScope(c) == /\ (c.cred = "refused" => c.via = "target" /\ c.query = <<>> /\ c.method \in {"GET", "POST", "OPTIONS"} /\ (Tier = "quick" => Len(c.rules) = 1))
              /\ (c.frag # <<>> => c.via = "xfu")            \* a fragment cannot travel in a request target
              /\ (c.path \in SlashyPaths => c.via \in {"xfu", "rp_noise_get"} /\ c.frag = <<>>)
              /\ (c.via \in NoiseVias => c.query = <<>> /\ c.method \in {"GET", "POST", "OPTIONS"} /\ (Tier = "quick" => Len(c.rules) = 1))
              \* the further methods only matter for the method comparison: plain request targets
              /\ (c.method \in {"HEAD", "PUT", "DELETE"} => c.query = <<>> /\ c.via = "target" /\ ~c.preflight /\ (Tier = "quick" => Len(c.rules) = 1))
              /\ (c.preflight => Len(c.rules) <= 1)           \* keep the product small: preflight x pairs adds nothing
              /\ (Tier = "quick" => (c.via \notin {"target"} \cup NoiseVias => Len(c.rules) = 1 /\ c.rules[1].m \in {"", "GET"} /\ c.method \in {"GET", "POST"}))
              /\ (Tier = "quick" /\ Len(c.rules) = 2 => c.query \in {<<>>, <<"q","x","eq","sl","a">>})
              /\ (Tier = "quick" /\ c.preflight => c.query = <<>> /\ c.via = "target")

CaseRec(c) == [fam |-> "c15route", in |-> c,
               req |-> [exempt |-> Req_Exempt(c)],
               impl |-> [exempt |-> Impl_Exempt(c)]]

\* ---- TLC: every case is an initial state; invariants compare Impl with Req -------------
VARIABLE c
\* nested quantifiers, not one big filtered set: TLC enumerates this in linear time
Init == \E m \in Methods, p \in Paths, q \in Queries, f \in Fragments, rs \in RuleSets, pf \in BOOLEAN, v \in Vias, cr \in Creds :
          c = Mk2(m, p, q, f, rs, pf, v, cr) /\ InScope(c)
Next == UNCHANGED c
ImplMeetsReq    == Impl_Exempt(c) = Req_Exempt(c)
PreFixWouldPass == Impl_ExemptURI(c) = Req_Exempt(c)      \* must be violated (selftest)
\* emission: the vocabulary once, one case line per distinct state (evaluated as an invariant)
EmitVocab == JsonSerialize("vocab.json", Vocab)
EmitCase  == CSVWrite("%1$s", <<ToJson(CaseRec(c))>>, "cases.ndjson")
=============================================================================
