CONSTANTS
  MaxPath = 4
  Tier = "quick"
INIT Init
NEXT Next
INVARIANT PreFixWouldPass
CHECK_DEADLOCK FALSE
