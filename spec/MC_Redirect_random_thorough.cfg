CONSTANTS
  MaxLen = 1
  RandN = 600
  RandLen = 10
INIT InitRandom
NEXT Next
INVARIANTS C06_NoOpenRedirect EmitCase
CHECK_DEADLOCK FALSE
