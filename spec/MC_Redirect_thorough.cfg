CONSTANTS
  MaxLen = 5
INIT Init
NEXT Next
INVARIANTS C06_NoOpenRedirect EmitCase
CHECK_DEADLOCK FALSE
