CONSTANTS
  Grids <- QuickGrids
  Modes = {"ok", "norefresh", "failvalid", "form"}
  Stores = {"cookie", "redis"}
  MaxReqs = 2
  ExpireCheck = TRUE
INIT Init
NEXT Next
INVARIANTS C09_Lifetime C09_Future EmitCase
CHECK_DEADLOCK FALSE
