------------------------------- MODULE Perturb -------------------------------
(* Frame conditions.  Every family's requirement (Req_* of its module) is a function of the options that     *)
(* family enumerates; it must not depend on any OTHER option of the proxy.  This module makes that statement  *)
(* explicit and lets TLC enumerate it:                                                                        *)
(*   Items       the catalogue of option settings away from the default (each a delta on the abstract         *)
(*               configuration record the harness builds the real proxy from) and the option GROUP it touches; *)
(*   Footprint   per family, the groups its requirement - or the projection the harness compares - reads;      *)
(*   Neutral     an item is neutral for a family iff it touches nothing in the family's footprint;             *)
(*   a BUNDLE is any set of neutral items; the family's cases, with the requirement TLC computed for them      *)
(*   under the default, must be observed unchanged on a proxy configured with the bundle.                      *)
(* A defect that hides behind an option nobody varied ("if opts.X { ... }") is reached by the family's own     *)
(* quantifier once X is in a bundle.  TLC emits the all-neutral bundle, every single item and every pair per  *)
(* family; the orchestrator adds seeded random halves (any subset of a neutral set is neutral).              *)
EXTENDS Naturals, Sequences, FiniteSets, TLC, Json, CSV

Vocab == [ atoms |-> [ none |-> "" ] ]

\* ---- the catalogue: name |-> [touch, delta] -------------------------------------------------------------------
Items == [
  banner      |-> [touch |-> "pages",       delta |-> [banner |-> "vp-banner-text", footer |-> "vp-footer-text", providerDisplayName |-> "Vp Provider"]],
  authparams  |-> [touch |-> "authparams",  delta |-> [scope |-> "openid email profile groups", prompt |-> "consent", acrValues |-> "lvl1", resource |-> "urn:vp:res"]],
  approval    |-> [touch |-> "authparams",  delta |-> [approvalPrompt |-> "auto"]],
  reqid       |-> [touch |-> "reqid",       delta |-> [requestIDHeader |-> "X-Vp-Trace"]],
  probes      |-> [touch |-> "probes",      delta |-> [pingPath |-> "/zzz-healthz", readyPath |-> "/zzz-readyz", pingUserAgent |-> "vp-probe/1.0", gcpHealthChecks |-> TRUE]],
  upstreamtx  |-> [touch |-> "upstreamtx",  delta |-> [upstreamTimeoutSec |-> 9, flushIntervalMs |-> 50, proxyWebSocketsOff |-> TRUE]],
  redisconn   |-> [touch |-> "redisconn",   delta |-> [redisPassword |-> "vp-redis-pw", redisIdleTimeoutSec |-> 30]],
  semicolons  |-> [touch |-> "semicolons",  delta |-> [allowQuerySemicolons |-> TRUE]],
  relredirect |-> [touch |-> "redirecturi", delta |-> [relativeRedirectURL |-> TRUE]],
  gapsig      |-> [touch |-> "upstreamhdr", delta |-> [signatureKey |-> "sha1:vp-signature-secret"]],
  tlsverify   |-> [touch |-> "tlsverify",   delta |-> [sslInsecure |-> TRUE]],
  logging     |-> [touch |-> "logging",     delta |-> [logging |-> TRUE]],
  csrfnaming  |-> [touch |-> "csrf",        delta |-> [csrfPerRequest |-> TRUE, csrfExpire |-> 600]],
  encodestate |-> [touch |-> "state",       delta |-> [encodeState |-> TRUE]],
  secretform  |-> [touch |-> "secret",      delta |-> [cookieSecret |-> "MDEyMzQ1Njc4OWFiY2RlZg=="]],
  bearer      |-> [touch |-> "bearer",      delta |-> [bearer |-> TRUE, extraIssuer |-> TRUE]],
  htpasswd    |-> [touch |-> "htpasswd",    delta |-> [htpasswd |-> TRUE, displayLoginForm |-> TRUE]],
  hdrflags    |-> [touch |-> "upstreamhdr", delta |-> [legacy |-> [passAccessToken |-> TRUE, setXAuthRequest |-> TRUE, passAuthorization |-> TRUE, setAuthorization |-> TRUE]]],
  bypassrules |-> [touch |-> "bypass",      delta |-> [skipAuthRoutes |-> <<"GET=^/zzz-open$">>, apiRoutes |-> <<"^/zzz-api/">>, trustedIPs |-> <<"203.0.113.0/24">>, preflight |-> TRUE]],
  whitelist   |-> [touch |-> "whitelist",   delta |-> [whitelist |-> <<".zzz.example">>]],
  revproxy    |-> [touch |-> "revproxy",    delta |-> [reverseProxy |-> TRUE, realIPHeader |-> "X-Forwarded-For"]],
  samesite    |-> [touch |-> "cookieattrs", delta |-> [cookieSameSite |-> "lax"]],
  nobutton    |-> [touch |-> "errmode",     delta |-> [skipProviderButton |-> TRUE]],
  forcejson   |-> [touch |-> "errmode",     delta |-> [forceJSON |-> TRUE]],
  statickeys  |-> [touch |-> "keysource",   delta |-> [staticKeys |-> TRUE]],
  jwksurl     |-> [touch |-> "keysource",   delta |-> [jwksOnly |-> TRUE]],
  backlogout  |-> [touch |-> "logout",      delta |-> [backendLogout |-> TRUE]],
  pkce        |-> [touch |-> "pkce",        delta |-> [pkce |-> "S256"]],
  domains     |-> [touch |-> "emailrule",   delta |-> [emailDomains |-> <<"zzz.example", "*">>]],
  cookiename  |-> [touch |-> "cookiename",  delta |-> [cookieName |-> "vp_sess"]],
  skipprofile |-> [touch |-> "profile",     delta |-> [skipClaimsFromProfile |-> TRUE]],
  refresh     |-> [touch |-> "refresh",     delta |-> [refresh |-> 7200]],
  redisstore  |-> [touch |-> "store",       delta |-> [store |-> "redis"]]
]
ItemNames == DOMAIN Items

\* two items that cannot be configured together (both replace the key source)
Compatible(a, b) == ~({a, b} = {"statickeys", "jwksurl"})

\* ---- per family: what the requirement / the compared projection reads --------------------------------------------
\* (every entry is a statement about the family's Req_* operator, the reason is given where it is not the family's own dimension)
Footprint == [
  access     |-> {"bearer", "htpasswd", "bypass", "errmode", "probes", "revproxy", "emailrule", "store", "refresh", "cookiename"},
  tamper     |-> {"secret", "csrf", "store", "cookiename", "refresh"},
  login      |-> {"csrf", "state", "pkce", "errmode", "keysource", "redirecturi"},
  tokens     |-> {"keysource", "bearer", "profile", "emailrule", "errmode", "refresh", "store"},
  redirect   |-> {"whitelist", "htpasswd", "errmode", "pages", "revproxy", "redirecturi"},
  c07        |-> {"upstreamhdr", "bearer", "htpasswd", "bypass", "revproxy", "store", "refresh"},   \* its bypassed requests are exempt by peer address
  c08        |-> {"emailrule", "htpasswd", "store", "errmode", "refresh"},
  c08file    |-> {"emailrule", "errmode", "refresh"},
  startparams |-> {"authparams", "pkce", "errmode", "redirecturi"},   \* (authparams: prompt / acr values ARE login-URL parameters)
  lifetime   |-> {"store", "refresh", "cookiename"},
  sched      |-> {"store", "refresh", "cookiename"},
  c10        |-> {"store", "cookiename", "refresh"},
  c10size    |-> {"store", "cookiename", "cookieattrs", "refresh"},
  signout    |-> {"store", "logout", "refresh", "errmode", "cookiename"},
  faults     |-> {"store", "htpasswd", "refresh", "redisconn", "errmode", "cookiename"},
  idpfaults  |-> {"keysource", "bearer", "profile", "refresh", "store", "errmode"},
  c15route   |-> {"bypass", "revproxy", "errmode"},
  c15net     |-> {"bypass", "revproxy", "errmode"},
  forwarding |-> {"revproxy", "errmode", "redirecturi", "bypass", "cookieattrs", "store"},   \* store: the two requests of a pair share one session; a sign-out that removes a stored session is not repeatable
  route      |-> {"upstreamhdr"},
  c18        |-> {"cookieattrs", "store", "cookiename", "csrf", "refresh", "redirecturi"},
  shapes     |-> {},
  lifecycle  |-> {"store", "refresh", "htpasswd", "emailrule", "errmode", "bearer", "cookiename"}
]
Families == DOMAIN Footprint

Neutral(f, i)   == Items[i].touch \notin Footprint[f]
NeutralItems(f) == {i \in ItemNames : Neutral(f, i)}

\* the settings of a bundle: the union of its items' deltas (items touch disjoint configuration fields)
RECURSIVE Merge(_)
Merge(S) == IF S = {} THEN [none |-> ""] ELSE LET i == CHOOSE x \in S : TRUE IN Items[i].delta @@ Merge(S \ {i})

PairOK(S) == \A a, b \in S : a # b => Compatible(a, b)
\* the all-neutral bundle keeps the first of two incompatible items
AllBundle(f) == NeutralItems(f) \ (IF {"statickeys", "jwksurl"} \subseteq NeutralItems(f) THEN {"jwksurl"} ELSE {})

VARIABLES fam, kind, items
vars == <<fam, kind, items>>

Init == \E f \in Families :
          /\ fam = f
          /\ \/ kind = "all"    /\ items = AllBundle(f)
             \/ kind = "single" /\ \E i \in NeutralItems(f) : items = {i}
             \/ kind = "pair"   /\ \E i, j \in NeutralItems(f) : i # j /\ Compatible(i, j) /\ items = {i, j}
Next == UNCHANGED vars

\* ---- properties of the catalogue itself ----------------------------------------------------------------------------
\* every bundle TLC emits is neutral and internally compatible
BundleNeutral == (\A i \in items : Neutral(fam, i)) /\ PairOK(items)
\* items touch disjoint configuration fields (so Merge does not depend on the order of CHOOSE)
DisjointFields == \A a, b \in ItemNames : a # b => (DOMAIN Items[a].delta) \cap (DOMAIN Items[b].delta) = {}
\* no item is dead weight: each is neutral for at least three families, and every family has a non-empty neutral set
Exercised == (\A i \in ItemNames : Cardinality({f \in Families : Neutral(f, i)}) >= 3) /\ (\A f \in Families : NeutralItems(f) # {})
ASSUME DisjointFields
ASSUME Exercised

CaseRec == [fam |-> "perturb", in |-> [family |-> fam, kind |-> kind, items |-> items, neutral |-> NeutralItems(fam)],
            delta |-> Merge(items)]
EmitVocab == JsonSerialize("vocab.json", Vocab)
EmitCase  == CSVWrite("%1$s", <<ToJson(CaseRec)>>, "cases.ndjson")
=============================================================================
