//go:build verif

package main

// startparams: the authorization request that starts a login (spec/StartParams.tla). Query parameters on /oauth2/start may override
// login-URL parameters only as the operator's allow rules say, and never the parameters the proxy computes itself.

import (
	mrand "math/rand"
	"net/url"
	"sort"
	"strings"
	"testing"
)

const (
	vpSPDefaultPrompt = "login"
	vpSPOrg           = "myorg"
)

// the client's values per name and shape: "ok" is admissible where a rule exists, "bad" never is
func vpSPValues(name, shape string) []string {
	ok := map[string]string{"prompt": "consent", "login_hint": "alice@example.com"}[name]
	if ok == "" {
		ok = "client-" + name + "-a"
	}
	bad := map[string]string{"prompt": "none", "login_hint": "mallory@evil.org"}[name]
	if bad == "" {
		bad = "client-" + name + "-b"
	}
	if name == "redirect_uri" {
		ok, bad = "https://evil.example/cb", "https://evil.example/cb2"
	}
	switch shape {
	case "ok":
		return []string{ok}
	case "bad":
		return []string{bad}
	}
	return []string{bad, ok}
}

func init() {
	vpRegister("startparams", func(t *testing.T, env *vpEnv) {
		keys, groups := vpGroup(env.cases, func(c *vpCase) string { return vpS(c.In, "entry") })
		vpRunGroups(keys, groups, env.seed, func(rng *mrand.Rand, key string, cs []*vpCase) {
			cfg := &vpCfg{PKCE: "S256", LoginParams: true, SkipProviderButton: key == "protected"}
			w, err := vpNewWorld(cfg)
			if err != nil {
				for _, c := range cs {
					env.emit(vpOut{ID: c.ID, Err: "world: " + err.Error()})
				}
				return
			}
			defer w.close()
			for _, c := range cs {
				q := url.Values{}
				qm := vpM(c.In, "query")
				var names []string
				for n := range qm {
					names = append(names, n)
				}
				sort.Strings(names)
				client := map[string]map[string]string{} // name -> value -> tag
				for _, n := range names {
					shape, _ := qm[n].(string)
					client[n] = map[string]string{}
					for i, v := range vpSPValues(n, shape) {
						q.Add(n, v)
						tag := "bad"
						if (shape == "ok" || (shape == "both" && i == 1)) && (n == "prompt" || n == "login_hint") {
							tag = "ok"
						}
						client[n][v] = tag
					}
				}
				target := w.prefix() + "/start?" + q.Encode()
				if key == "protected" {
					target = "/private/page?" + q.Encode()
				}
				r := w.do(vpReq{Target: target})
				obs := map[string]interface{}{"panic": r.Panic != "", "status": r.Status}
				u, perr := url.Parse(r.Location)
				if perr != nil || r.Location == "" {
					env.emit(vpOut{ID: c.ID, Obs: obs, Err: "no redirect to the provider: status " + strings.TrimSpace(r.Location)})
					continue
				}
				want, _ := url.Parse(w.idp.issuer() + "/authorize")
				obs["endpoint"] = u.Scheme == want.Scheme && u.Host == want.Host && u.Path == want.Path
				got := u.Query()
				params := map[string]interface{}{}
				for _, n := range []string{"client_id", "redirect_uri", "response_type", "scope", "state", "nonce", "code_challenge", "code_challenge_method",
					"prompt", "login_hint", "organization", "hd"} {
					tags := []interface{}{}
					for _, v := range got[n] {
						tag := "own"
						switch {
						case client[n] != nil && client[n][v] != "":
							tag = client[n][v] // what the client sent came through: admissible ("ok") or not ("bad")
						case n == "prompt" && v == vpSPDefaultPrompt, n == "organization" && v == vpSPOrg:
							tag = "default"
						case n == "client_id" && v != vpClientID, n == "response_type" && v != "code":
							tag = "foreign:" + v
						case n == "redirect_uri" && !strings.HasSuffix(v, w.prefix()+"/callback"):
							tag = "foreign:" + v
						}
						// (the state carries the redirect target after its nonce: a client value inside it is not the parameter's value)
						tags = append(tags, tag)
					}
					params[n] = tags
				}
				obs["params"] = params
				env.emit(vpOut{ID: c.ID, Obs: obs, Conc: map[string]interface{}{"target": target, "location": r.Location}})
			}
		})
	})
}
