//go:build verif

package main

import (
	"encoding/base64"
	"fmt"
	mrand "math/rand"
	"strings"
	"testing"
	"time"
)

// access: C01 - credential state x endpoint x method x bypass x authorisation x store x error mode
func init() {
	vpRegister("access", func(t *testing.T, env *vpEnv) {
		keys, groups := vpGroup(env.cases, func(c *vpCase) string { return vpJSON(c.In["cfg"]) })
		vpRunGroups(keys, groups, env.seed, func(rng *mrand.Rand, key string, cs []*vpCase) {
			cm := vpM(cs[0].In, "cfg")
			mk := func(permissive bool) *vpCfg {
				cfg := &vpCfg{Store: vpS(cm, "store"), Preflight: vpB(cm, "preflight"), ForceJSON: vpB(cm, "forceJSON"),
					SkipProviderButton: vpB(cm, "spb"), Bearer: vpB(cm, "bearer"), Htpasswd: vpB(cm, "htpasswd"), HtpasswdGroups: []string{"g1"},
					SkipAuthRoutes: []string{"^/open", "GET=^/getonly"}, TrustedIPs: []string{"198.51.100.0/24"}, APIRoutes: []string{"^/api"},
					EmailDomains: []string{"example.com"}, AllowedGroups: []string{"g1"}}
				if cfg.Bearer {
					// two extra JWT issuers next to the provider: one with a discovery document, one with keys only (listed first)
					cfg.ExtraIssuer, cfg.ExtraIssuer2 = true, true
				}
				if vpB(cm, "customPrefix") {
					cfg.ProxyPrefix = "/_gate"
				}
				if vpB(cm, "expire0") {
					zero := 0
					cfg.Expire = &zero
				}
				if vpB(cm, "rp") {
					cfg.ReverseProxy, cfg.RealIPHeader = true, "X-Real-IP"
				}
				if permissive {
					cfg.EmailDomains = []string{"*"}
					cfg.AllowedGroups = nil
					cfg.Htpasswd = false
				}
				return cfg
			}
			fail := func(msg string) {
				for _, c := range cs {
					env.emit(vpOut{ID: c.ID, Err: msg})
				}
			}
			w, err := vpNewWorld(mk(false))
			if err != nil {
				fail("world: " + err.Error())
				return
			}
			defer w.close()
			cfg0 := mk(true)
			cfg0.shareRedis = w.mr
			w0, err := vpNewWorld(cfg0)
			if err != nil {
				fail("twin: " + err.Error())
				return
			}
			defer w0.close()
			// bearer tokens must come from the issuer the proxy under test trusts
			identities := []string{"alice@example.com", "bob@other.org", "carol@example.com", "sub-alice", "sub-bob", "sub-carol", "hpuser", "dave.example.com", "sub-dave", "erin.example.com"}
			for _, c := range cs {
				in := c.In
				cred, user := vpS(in, "cred"), vpS(in, "user")
				jar := vpNewJar()
				var hdr [][2]string
				cookie := ""
				conc := map[string]interface{}{}
				session := func() bool {
					cb, err := w0.login(jar, user, "")
					return err == nil && w0.sessionCookieEffect(cb) == "set"
				}
				mutateCookie := func(mut string) {
					ck := jar.get(w.name)
					if ck == nil {
						return
					}
					cookie = w.name + "=" + vpMutateSigned(ck.Value, mut, w.name, rng)
				}
				ok := true
				switch cred {
				case "none":
				case "valid", "valid_plus_badbearer":
					ok = session()
					cookie = jar.header()
					if cred == "valid_plus_badbearer" {
						hdr = append(hdr, [2]string{"Authorization", "Bearer " + w.idp.mintIDToken(user, nil, "otherkey")})
					}
				case "aged_valid":
					ok = session() && w0.ageSession(jar, 167*time.Hour, vpReq{}) == nil
					cookie = jar.header()
				case "expired", "expired_plus_goodbearer":
					ok = session() && w0.ageSession(jar, 169*time.Hour, vpReq{}) == nil
					cookie = jar.header()
					if cred == "expired_plus_goodbearer" {
						hdr = append(hdr, [2]string{"Authorization", "Bearer " + w.idp.mintIDToken(user, nil, "")})
					}
				case "tamper_value", "tamper_sig":
					ok = session()
					mutateCookie(map[string]string{"tamper_value": "tampered_value", "tamper_sig": "tampered_sig"}[cred])
				case "tamper_ts":
					ok = session()
					if ck := jar.get(w.name); ck != nil {
						p := strings.Split(ck.Value, "|")
						if len(p) == 3 {
							p[1] = fmt.Sprint(time.Now().Unix() + 60)
							cookie = w.name + "=" + strings.Join(p, "|")
						}
					}
				case "other_secret":
					ok = session()
					mutateCookie("resigned")
				case "csrf_as_session":
					r := w.startLogin(jar, "")
					for _, ck := range r.Cookies {
						if w.isCSRFCookieName(ck.Name) {
							cookie = w.name + "=" + ck.Value
						}
					}
				case "ticket_no_entry":
					ok = session()
					cookie = jar.header()
					if ck := jar.get(w.name); ck != nil && w.mr != nil {
						w.mr.Del(vpTicketID(ck.Value))
					}
				case "garbage":
					cookie = w.name + "=" + vpRandToken(40) + "|" + fmt.Sprint(time.Now().Unix()) + "|" + vpRandToken(43) + "="
				case "bearer_valid":
					hdr = append(hdr, [2]string{"Authorization", "Bearer " + w.idp.mintIDToken(user, nil, "")})
				case "bearer_otherkey":
					hdr = append(hdr, [2]string{"Authorization", "Bearer " + w.idp.mintIDToken(user, nil, "otherkey")})
				case "bearer_algnone":
					hdr = append(hdr, [2]string{"Authorization", "Bearer " + w.idp.mintIDToken(user, nil, "none") + "x"})
				case "bearer_hs256pub":
					hdr = append(hdr, [2]string{"Authorization", "Bearer " + w.idp.mintIDToken(user, nil, "HS256pub")})
				case "bearer_wrong_iss":
					hdr = append(hdr, [2]string{"Authorization", "Bearer " + w.idp.mintIDToken(user, func(cl map[string]interface{}) { cl["iss"] = "https://evil.example/" }, "")})
				case "bearer_wrong_aud":
					hdr = append(hdr, [2]string{"Authorization", "Bearer " + w.idp.mintIDToken(user, func(cl map[string]interface{}) { cl["aud"] = "someone-else" }, "")})
				case "bearer_multi_aud_azp":
					hdr = append(hdr, [2]string{"Authorization", "Bearer " + w.idp.mintIDToken(user, func(cl map[string]interface{}) {
						cl["aud"] = []string{"service-a", "service-b"}
						cl["azp"] = vpClientID
					}, "")})
				case "xbearer_valid", "xbearer0_valid", "xbearer_wrong_iss", "xbearer0_wrong_iss":
					iss := w.xidp
					if strings.HasPrefix(cred, "xbearer0") {
						iss = w.xidp0
					}
					if iss == nil {
						// (bearer tokens are not enabled in this configuration: any issuer's token is just an unknown credential)
						iss = w.idp
					}
					wrong := strings.HasSuffix(cred, "wrong_iss")
					hdr = append(hdr, [2]string{"Authorization", "Bearer " + iss.mintIDToken(user, func(cl map[string]interface{}) {
						cl["aud"] = vpExtraAudience
						cl["iss"] = iss.issuer()
						if wrong {
							cl["iss"] = "https://evil.example/"
						}
					}, "")})
				case "bearer_expired":
					hdr = append(hdr, [2]string{"Authorization", "Bearer " + w.idp.mintIDToken(user, func(cl map[string]interface{}) { cl["exp"] = time.Now().Add(-time.Hour).Unix() }, "")})
				case "bearer_unverified":
					hdr = append(hdr, [2]string{"Authorization", "Bearer " + w.idp.mintIDToken(user, func(cl map[string]interface{}) { cl["email_verified"] = false }, "")})
				case "basic_valid":
					hdr = append(hdr, [2]string{"Authorization", "Basic " + base64.StdEncoding.EncodeToString([]byte("hpuser:hppass"))})
				case "basic_wrongpw":
					hdr = append(hdr, [2]string{"Authorization", "Basic " + base64.StdEncoding.EncodeToString([]byte("hpuser:nope"))})
				case "basic_malformed":
					hdr = append(hdr, [2]string{"Authorization", "Basic " + base64.StdEncoding.EncodeToString([]byte("hpuser-without-colon"))})
				}
				if !ok {
					env.emit(vpOut{ID: c.ID, Err: "could not establish credential " + cred})
					continue
				}
				path := "/private/x"
				if vpS(in, "bypass") == "route" {
					path = "/open/x"
				}
				if vpS(in, "bypass") == "route_get" {
					path = "/getonly/x"
				}
				if vpS(in, "errmode") == "api_route" {
					path = "/api/x"
				}
				switch vpS(in, "endpoint") {
				case "authonly":
					path = w.prefix() + "/auth"
				case "userinfo":
					path = w.prefix() + "/userinfo"
				case "sign_in":
					path = w.prefix() + "/sign_in"
				case "start":
					path = w.prefix() + "/start"
				case "static":
					path = w.prefix() + "/static/css/bulma.min.css"
				case "old_prefix":
					path = "/oauth2/userinfo"
				case "robots":
					path = "/robots.txt"
				case "ping":
					path = "/ping"
				}
				// auth-only and userinfo live under the proxy prefix: a route bypass for them needs a matching rule - not configured,
				// so "route" only applies to proxied paths; for the other endpoints the trusted IP is the bypass
				req := vpReq{Method: vpS(in, "method"), Target: path, Cookie: cookie, Header: hdr}
				bp := vpS(in, "bypass")
				if bp == "ip" || (bp == "route" && vpS(in, "endpoint") != "proxy") {
					if vpB(cm, "rp") {
						// reverse-proxy mode: the client address travels in the configured header, the peer is the (untrusted) front proxy
						req.Header = append(req.Header, [2]string{"X-Real-Ip", "198.51.100.77"})
					} else {
						req.RemoteAddr = "198.51.100.77:4000"
					}
				}
				switch bp {
				case "peer_garbage":
					req.RemoteAddr = "198.51.100.77:4000"
					req.Header = append(req.Header, [2]string{"X-Real-Ip", "not-an-address"})
				case "peer_absent":
					req.RemoteAddr = "198.51.100.77:4000"
				}
				switch bp {
				case "spoof_uri":
					req.Header = append(req.Header, [2]string{"X-Forwarded-Uri", "/open/x"}, [2]string{"X-Forwarded-Proto", "https"}, [2]string{"X-Forwarded-Host", vpHost})
				case "spoof_ip":
					req.Header = append(req.Header, [2]string{"X-Forwarded-For", "198.51.100.77"}, [2]string{"X-Real-Ip", "198.51.100.77"})
				}
				if vpS(in, "errmode") == "accept_json" {
					req.Header = append(req.Header, [2]string{"Accept", "text/html, application/json"})
				}
				r := w.do(req)
				body := string(r.Body)
				leak := false
				for _, id := range identities {
					if strings.Contains(body, id) {
						leak = true
					}
				}
				obs := map[string]interface{}{"status": r.Status, "class": w.classify(r), "upstream": r.UpHits, "panic": r.Panic != "", "identityInBody": leak}
				switch vpS(in, "endpoint") {
				case "proxy", "old_prefix":
					obs["served"] = r.UpHits > 0
					if r.UpHits > 0 {
						obs["identityInBody"] = false // the upstream's own body
					}
				case "authonly":
					obs["served"] = r.Status == 202
				case "userinfo":
					obs["identity"] = r.Status == 200 && leak
					if r.Status == 200 && leak {
						obs["identityInBody"] = false
					}
				}
				conc["target"], conc["cookie"], conc["headers"], conc["remote"] = path, cookie, hdr, req.RemoteAddr
				env.emit(vpOut{ID: c.ID, Obs: obs, Conc: conc})
			}
		})
	})
}
