CONSTANTS
  Tier = "thorough"
INIT Init
NEXT Next
INVARIANTS EmitCase
CHECK_DEADLOCK FALSE
