//go:build verif

package main

import (
	"fmt"
	"html"
	"regexp"
	mrand "math/rand"
	"net/url"
	"strings"
	"testing"

	"github.com/oauth2-proxy/oauth2-proxy/v7/pkg/app/redirect"
)

var vpWhitelists = map[string][]string{"none": nil, "exact": {"good.example.com"}, "dotted": {".example.com"}, "wild": {"*.example.com"},
	"exact_port": {"good.example.com:8443"}, "exact_anyport": {"good.example.com:*"},
	"exact_p80": {"good.example.com:80"}, "exact_p443": {"good.example.com:443"}}

func vpRedirectText(voc *vpVocab, seq []string) string {
	t := voc.text(seq)
	t = strings.ReplaceAll(t, "{CTL}", "\x01")
	return strings.ReplaceAll(t, "{NBSP}", " ")
}

func vpRedirectTokens(voc *vpVocab, s string) []string {
	s = strings.ReplaceAll(s, "\x01", "{CTL}")
	s = strings.ReplaceAll(s, " ", "{NBSP}")
	s = strings.ReplaceAll(s, "%C2%A0", "{NBSP}")
	s = strings.ReplaceAll(s, "%20", " ")
	return voc.tokens(s)
}

var vpHTMLTargetRe = regexp.MustCompile(`(?is)(?:action|href)\s*=\s*"([^"]*)"|<input[^>]*name\s*=\s*"rd"[^>]*value\s*=\s*"([^"]*)"|<input[^>]*value\s*=\s*"([^"]*)"[^>]*name\s*=\s*"rd"`)

// vpHTMLTargets: link / form-action / hidden-rd values of a page, HTML-unescaped
func vpHTMLTargets(body string) []string {
	var out []string
	for _, m := range vpHTMLTargetRe.FindAllStringSubmatch(body, -1) {
		for _, g := range m[1:] {
			if g != "" {
				out = append(out, html.UnescapeString(g))
			}
		}
	}
	return out
}

func init() {
	vpRegister("redirect", func(t *testing.T, env *vpEnv) {
		voc, err := vpLoadVocab()
		if err != nil {
			t.Fatalf("vocab: %v", err)
		}
		e2eEvery := 1
		if len(env.cases) > 40000 {
			e2eEvery = len(env.cases) / 40000
		}
		keys, groups := vpGroup(env.cases, func(c *vpCase) string { return vpS(c.In, "wl") })
		vpRunGroups(keys, groups, env.seed, func(rng *mrand.Rand, key string, cs []*vpCase) {
			wl := vpWhitelists[key]
			val := redirect.NewValidator(wl)
			w, err := vpNewWorld(&vpCfg{Whitelist: wl, Htpasswd: true})
			if err != nil {
				for _, c := range cs {
					env.emit(vpOut{ID: c.ID, Err: "world: " + err.Error()})
				}
				return
			}
			defer w.close()
			// links every page carries whatever the input is (style sheets, the project link in the footer)
			static := map[string]bool{}
			for _, pg := range []*vpResp{
				w.do(vpReq{Target: w.prefix() + "/sign_in?rd=%2F", Host: "app.internal.test"}),
				w.do(vpReq{Target: w.prefix() + "/callback?code=x&state=n%3A%2F", Host: "app.internal.test"})} {
				for _, tgt := range vpHTMLTargets(string(pg.Body)) {
					static[tgt] = true
				}
			}
			for k, c := range cs {
				seq := vpSeq(c.In["s"])
				text := vpRedirectText(voc, seq)
				obs := map[string]interface{}{"panic": false}
				func() {
					defer func() {
						if e := recover(); e != nil {
							obs["panic"] = true
						}
					}()
					obs["accepted"] = val.IsValidRedirect(text)
				}()
				// end to end for accepted strings (and a stride of the others): what do the endpoints put on the wire
				if obs["accepted"] == true || k%(17*e2eEvery) == 0 {
					_, mustRun := c.Req["landsOnInput"]
					mustRun = mustRun || c.Must
					if k%e2eEvery == 0 || mustRun {
						em := map[string]interface{}{}
						// the battery runs against a host the whitelist does not know and - for strings addressed to the whitelisted host
						// itself - once more with the request made TO that host (the proxy serving its own whitelisted name)
						hosts := []string{"app.internal.test"}
						if key != "none" && (strings.HasPrefix(text, "https://good.example.com") || strings.HasPrefix(text, "http://good.example.com")) {
							hosts = append(hosts, "good.example.com")
						}
						for _, reqHost := range hosts {
						sfx := ""
						if reqHost != "app.internal.test" {
							sfx = "@own"
						}
						// sign-out
						r := w.do(vpReq{Target: w.prefix() + "/sign_out?rd=" + url.QueryEscape(text), Host: reqHost})
						em["sign_out"+sfx] = vpRedirectTokens(voc, r.Location)
						// start -> IdP -> callback (the redirect travels in the state)
						j := vpNewJar()
						s := w.do(vpReq{Target: w.prefix() + "/start?rd=" + url.QueryEscape(text), Host: reqHost})
						j.applyAll(s)
						if code, state, err := w.idp.authorize(s.Location, "alice"); err == nil {
							q := url.Values{"code": {code}, "state": {state}}
							cb := w.do(vpReq{Target: w.prefix() + "/callback?" + q.Encode(), Cookie: j.header(), Host: reqHost})
							em["callback"+sfx] = vpRedirectTokens(voc, cb.Location)
							em["callback_status"+sfx] = cb.Status
							if sfx == "" {
								obs["landsOnInput"] = cb.Status == 302 && cb.Location == text
							}
						}
						if _, plain := c.Req["landsOnInput"]; plain && sfx == "" {
							// "requested before login": the same path and query asked for WITHOUT a session - the sign-in page the proxy answers
							// with must carry exactly that as the place to come back to (its hidden rd field is what /start receives)
							pg := w.do(vpReq{Target: text, Host: reqHost})
							carried := false
							for _, tgt := range vpHTMLTargets(string(pg.Body)) {
								if tgt == text {
									carried = true
								}
							}
							if v, ok := obs["landsOnInput"].(bool); ok {
								obs["landsOnInput"] = v && carried
							}
						}
						// form sign-in
						form := url.Values{"username": {"hpuser"}, "password": {"hppass"}, "rd": {text}}
						f := w.do(vpReq{Method: "POST", Target: w.prefix() + "/sign_in", Body: form.Encode(), Form: true, Host: reqHost})
						em["sign_in"+sfx] = vpRedirectTokens(voc, f.Location)
						// header source
						x := w.do(vpReq{Target: w.prefix() + "/sign_out", Host: reqHost, Header: [][2]string{{"X-Auth-Request-Redirect", text}}})
						if !strings.ContainsAny(text, "\n\x01\t") {
							em["xarr"+sfx] = vpRedirectTokens(voc, x.Location)
						}
						// error and sign-in pages: every link, form action and hidden rd they carry
						pages := map[string]*vpResp{}
						// callback that fails before the state's redirect is validated (no CSRF cookie; CSRF cookie but a bad code)
						pages["cberr_nocsrf"] = w.do(vpReq{Target: w.prefix() + "/callback?" + url.Values{"code": {"x"}, "state": {"nonce:" + text}}.Encode(), Host: reqHost})
						j2 := vpNewJar()
						s2 := w.do(vpReq{Target: w.prefix() + "/start?rd=" + url.QueryEscape(text), Host: reqHost})
						j2.applyAll(s2)
						if _, state, err := w.idp.authorize(s2.Location, "alice"); err == nil {
							pages["cberr_badcode"] = w.do(vpReq{Target: w.prefix() + "/callback?" + url.Values{"code": {"not-a-code"}, "state": {state}}.Encode(), Cookie: j2.header(), Host: reqHost})
							pages["cberr_idperror"] = w.do(vpReq{Target: w.prefix() + "/callback?" + url.Values{"error": {"access_denied"}, "state": {state}}.Encode(), Cookie: j2.header(), Host: reqHost})
						}
						pages["signin_page"] = w.do(vpReq{Target: w.prefix() + "/sign_in?rd=" + url.QueryEscape(text), Host: reqHost})
						pages["signin_bad_pw"] = w.do(vpReq{Method: "POST", Target: w.prefix() + "/sign_in", Body: url.Values{"username": {"hpuser"}, "password": {"wrong"}, "rd": {text}}.Encode(), Form: true, Host: reqHost})
						for name, pg := range pages {
							for k, tgt := range vpHTMLTargets(string(pg.Body)) {
								if strings.HasPrefix(tgt, w.prefix()+"/") || tgt == "" || static[tgt] {
									continue // the page's own fixed same-site endpoints
								}
								em[fmt.Sprintf("%s#%d%s", name, k, sfx)] = vpRedirectTokens(voc, tgt)
							}
							if pg.Location != "" && !strings.HasPrefix(pg.Location, w.idp.srv.URL) {
								em[name+"#loc"+sfx] = vpRedirectTokens(voc, pg.Location)
							}
						}
						}
						obs["emitted"] = em
						obs["input"] = vpRedirectTokens(voc, text)
					}
				}
				env.emit(vpOut{ID: c.ID, Obs: obs, Conc: map[string]interface{}{"text": fmt.Sprintf("%q", text)}})
			}
		})
	})
}
