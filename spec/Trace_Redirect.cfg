CONSTANTS
  MaxLen = 1
SPECIFICATION Spec2
INVARIANTS Mon_EmittedSafe
POSTCONDITION TraceAccepted
CHECK_DEADLOCK FALSE
