SPECIFICATION Spec
INVARIANTS Mon_SignedOut Mon_NoPanic
POSTCONDITION TraceAccepted
CHECK_DEADLOCK FALSE
