-------------------------------- MODULE Proxy --------------------------------
(* Integration model: the session life-cycle across features.                     *)
(* Two browsers, two users (alice allowed by the e-mail rules, bob only while the   *)
(* allow-list contains him), one proxy.  Every action is one browser step or one    *)
(* environment step; the per-step requirement is the union of what C01, C08, C09,    *)
(* C11, C12 demand of that step.  TLC explores it exhaustively to a small depth and   *)
(* by random simulation to depth 25; every behaviour is replayed against the real     *)
(* proxy.  (The dedicated modules go deeper on each axis; this one finds feature      *)
(* interactions.)                                                                     *)
EXTENDS Naturals, Sequences, FiniteSets, TLC, Json, CSV

CONSTANTS MaxSteps, Store, RefreshOn

Vocab == [ atoms |-> [ none |-> "" ] ]
Browsers == {"b1", "b2"}
Users    == {"alice", "bob"}
NoSess   == [user |-> "none", age |-> "none", gen |-> 0, sid |-> 0, tampered |-> FALSE, grp |-> FALSE]

VARIABLES br,        \* [Browsers -> session the browser's jar holds]   age: fresh | stale (older than refresh period) | expired
          stored,    \* redis: set of session ids whose entry exists
          snaps,     \* sequence of [b, sess] : every credential a browser ever held (for replays)
          allowed,   \* users the e-mail rules admit right now (the e-mails file)
          idpOK,     \* the IdP answers refresh requests
          member,    \* users who are in the allowed group AT THE IDP right now (a session learns of a change only by a refresh or a new login)
          pw,        \* version (1 / 2) of the password the htpasswd file lists for the basic-auth user right now
          usedRT,    \* cookie store: <<sid, gen>> whose refresh token the IdP has already redeemed (it rotates them)
          nsid, hist,
          proj       \* history of the abstract state's projection after every step (compared with the real proxy's state: conformance)
vars == <<br, stored, snaps, allowed, idpOK, member, pw, usedRT, nsid, hist, proj>>

Init == /\ br = [b \in Browsers |-> NoSess] /\ stored = {} /\ snaps = <<>> /\ allowed = {"alice"} /\ idpOK = TRUE /\ member = Users /\ pw = 1 /\ usedRT = {} /\ nsid = 0 /\ hist = <<>> /\ proj = <<>>

Step(a, args, req) == hist' = Append(hist, [a |-> a, args |-> args, req |-> req])
More == Len(hist) < MaxSteps

\* is the credential s one the proxy honours right now
Exists(s)  == s.user # "none" /\ ~s.tampered /\ s.age # "expired" /\ (Store = "redis" => s.sid \in stored)
\* the e-mail rules in force admit the user and the SESSION carries the allowed group
Authorised(s) == s.user \in allowed /\ s.grp
\* presenting credential s makes the proxy redeem its refresh token successfully
\* (the refresh comes first: what is authorised is the session AFTER it, with the groups the new ID token carries)
Refreshes(s) == Exists(s) /\ s.age = "stale" /\ RefreshOn /\ idpOK /\ (Store = "cookie" => <<s.sid, s.gen>> \notin usedRT)
Refreshed(s) == [s EXCEPT !.age = "fresh", !.gen = @ + 1, !.grp = s.user \in member]
\* the effect of a refresh on every other holder of that session:
\*   redis  - the one stored session is renewed, so every stale credential of that ticket now loads a fresh one
\*   cookie - each credential is self-contained; the others stay as they are, but their refresh token is spent
Renew(c, s) == IF Store = "redis" /\ c.sid = s.sid /\ c.age = "stale" /\ ~c.tampered THEN [c EXCEPT !.age = "fresh", !.gen = s.gen + 1, !.grp = s.user \in member] ELSE c

\* ---- browser steps -------------------------------------------------------------------------------
Login(b, u) ==
    /\ More
    /\ IF u \in allowed /\ u \in member
       THEN /\ br' = [br EXCEPT ![b] = [user |-> u, age |-> "fresh", gen |-> 0, sid |-> nsid + 1, tampered |-> FALSE, grp |-> TRUE]]
            /\ stored' = IF Store = "redis" THEN stored \cup {nsid + 1} ELSE stored
            /\ snaps' = Append(snaps, [b |-> b, sess |-> br'[b]])
            /\ nsid' = nsid + 1
            /\ Step("login", [b |-> b, user |-> u], [session |-> "set"])
       ELSE /\ Step("login", [b |-> b, user |-> u], [session |-> [not |-> "set"]])
            /\ UNCHANGED <<br, stored, snaps, nsid>>
    /\ UNCHANGED <<allowed, idpOK, member, pw, usedRT>>

\* a request to a protected path / the auth-only endpoint / userinfo
Request(b, ep) ==
    /\ More
    /\ LET s == br[b]
           refresh == Refreshes(s)
           s2 == IF refresh THEN Refreshed(s) ELSE s
       IN /\ usedRT' = IF refresh /\ Store = "cookie" THEN usedRT \cup {<<s.sid, s.gen>>} ELSE usedRT
          /\ IF Exists(s) /\ Authorised(s2)
             THEN /\ br' = [x \in Browsers |-> IF x = b THEN s2 ELSE IF refresh THEN Renew(br[x], s) ELSE br[x]]
                  /\ snaps' = IF refresh THEN Append([i \in 1..Len(snaps) |-> [snaps[i] EXCEPT !.sess = Renew(@, s)]], [b |-> b, sess |-> s2]) ELSE snaps
                  /\ Step("request", [b |-> b, ep |-> ep],
                          [served |-> TRUE, user |-> s.user])
                  /\ UNCHANGED stored
             ELSE \* refused; a session that exists but is not (any longer) authorised, or whose credential is invalid, is cleared
                  /\ br' = [br EXCEPT ![b] = NoSess]
                  /\ stored' = IF Store = "redis" /\ Exists(s) THEN stored \ {s.sid} ELSE stored
                  /\ Step("request", [b |-> b, ep |-> ep], [served |-> FALSE, class |-> [oneof |-> <<"signin", "idp_redirect", "401", "403">>]])
                  /\ UNCHANGED snaps
    /\ UNCHANGED <<allowed, idpOK, member, pw, nsid>>

SignOut(b) ==
    /\ More /\ br[b].user # "none"
    /\ br' = [br EXCEPT ![b] = NoSess]
    \* the entry can only be found through a ticket cookie that still verifies (an expired or altered one names nothing; the entry
    \* then lives on until its TTL, unreachable)
    /\ stored' = IF ~br[b].tampered /\ br[b].age # "expired" THEN stored \ {br[b].sid} ELSE stored
    \* the sign-out request passes the session loader like any other: a stale session is refreshed first (its refresh token is spent)
    /\ usedRT' = IF Refreshes(br[b]) /\ Store = "cookie" THEN usedRT \cup {<<br[b].sid, br[b].gen>>} ELSE usedRT
    /\ Step("signout", [b |-> b], [redirected |-> TRUE, stillSignedIn |-> FALSE])
    /\ UNCHANGED <<snaps, allowed, idpOK, member, pw, nsid>>

\* an old credential of ANY browser is presented by browser b (theft / replay)
Replay(b, i) ==
    /\ More /\ i \in 1..Len(snaps)
    /\ LET s == snaps[i].sess
           \* with the cookie store every generation is a self-contained credential; with Redis the ticket is the same for all generations
           refresh == Refreshes(s)
           s2 == IF refresh THEN Refreshed(s) ELSE s
           live == Exists(s) /\ Authorised(s2)
       \* an old credential that is no longer honoured must be refused; one that still would be MAY be served (an implementation is free
       \* to be stricter, e.g. to revoke self-contained cookies at sign-out) - but then only as the user it was issued to
       IN /\ Step("replay", [b |-> b, snap |-> i, user |-> s.user, live |-> live], IF live THEN [servedAsOther |-> FALSE] ELSE [served |-> FALSE])
          \* the replayed request has the server-side effects of any request: it may redeem the refresh token (the renewed
          \* cookie goes to the replayer and is dropped), and an existing-but-unauthorised session is removed
          /\ br' = [x \in Browsers |-> IF refresh /\ live THEN Renew(br[x], s) ELSE br[x]]
          /\ snaps' = IF refresh /\ live THEN [k \in 1..Len(snaps) |-> [snaps[k] EXCEPT !.sess = Renew(@, s)]] ELSE snaps
          /\ usedRT' = IF refresh /\ Store = "cookie" THEN usedRT \cup {<<s.sid, s.gen>>} ELSE usedRT
          /\ stored' = IF Store = "redis" /\ Exists(s) /\ ~live THEN stored \ {s.sid} ELSE stored
    /\ UNCHANGED <<allowed, idpOK, member, pw, nsid>>

\* ---- environment steps ---------------------------------------------------------------------------
\* time passes for browser b's session
Age(b, to) ==
    /\ More /\ Exists(br[b])
    /\ \/ (br[b].age = "fresh" /\ to \in {"stale", "expired"}) \/ (br[b].age = "stale" /\ to = "expired")
    /\ br' = [br EXCEPT ![b].age = to]
    \* time passes for every credential of that session (older generations are at least as old)
    /\ snaps' = [i \in 1..Len(snaps) |-> IF snaps[i].sess.sid = br[b].sid THEN [snaps[i] EXCEPT !.sess.age = to] ELSE snaps[i]]
    /\ Step("age", [b |-> b, to |-> to], [ok |-> TRUE])
    /\ UNCHANGED <<stored, allowed, idpOK, member, pw, usedRT, nsid>>
Tamper(b) ==
    /\ More /\ br[b].user # "none" /\ ~br[b].tampered
    /\ br' = [br EXCEPT ![b].tampered = TRUE]
    /\ Step("tamper", [b |-> b], [ok |-> TRUE])
    /\ UNCHANGED <<stored, snaps, allowed, idpOK, member, pw, usedRT, nsid>>
RulesChange ==
    /\ More
    /\ allowed' = IF "bob" \in allowed THEN {"alice"} ELSE {"alice", "bob"}
    /\ Step("rules", [allowed |-> IF "bob" \in allowed THEN <<"alice">> ELSE <<"alice", "bob">>], [reloaded |-> TRUE])
    /\ UNCHANGED <<br, stored, snaps, idpOK, member, pw, usedRT, nsid>>
\* the user's group membership changes at the identity provider
GroupChange(u) ==
    /\ More
    /\ member' = IF u \in member THEN member \ {u} ELSE member \cup {u}
    /\ Step("groups", [user |-> u, member |-> u \notin member], [ok |-> TRUE])
    /\ UNCHANGED <<br, stored, snaps, allowed, idpOK, pw, usedRT, nsid>>
\* basic authentication against the htpasswd file (a bcrypt entry): the password presented must be the one listed NOW;
\* the operator rotates it by rewriting the file (watched and reloaded)
BasicRequest(b, v) ==
    /\ More
    /\ Step("basic", [b |-> b, v |-> v], IF v = pw THEN [served |-> TRUE, user |-> "hp"] ELSE [served |-> FALSE, class |-> [oneof |-> <<"signin", "idp_redirect", "401", "403">>]])
    /\ UNCHANGED <<br, stored, snaps, allowed, idpOK, member, pw, usedRT, nsid>>
\* an API client presents a bearer token the provider issued for u just now (no cookie): the rules and the group membership IN FORCE decide,
\* exactly as for a session; an expired token is no credential.  Nothing of the state changes.
BearerRequest(u, k) ==
    /\ More
    /\ Step("bearer", [user |-> u, kind |-> k],
            IF k = "good" /\ u \in allowed /\ u \in member THEN [served |-> TRUE, user |-> u]
            ELSE [served |-> FALSE, class |-> [oneof |-> <<"signin", "idp_redirect", "401", "403">>]])
    /\ UNCHANGED <<br, stored, snaps, allowed, idpOK, member, pw, usedRT, nsid>>
PwChange ==
    /\ More
    /\ pw' = 3 - pw
    /\ Step("pwchange", [to |-> 3 - pw], [reloaded |-> TRUE])
    /\ UNCHANGED <<br, stored, snaps, allowed, idpOK, member, usedRT, nsid>>
IdPToggle ==
    /\ More /\ RefreshOn
    /\ idpOK' = ~idpOK
    /\ Step("idp", [ok |-> ~idpOK], [ok |-> TRUE])
    /\ UNCHANGED <<br, stored, snaps, allowed, member, pw, usedRT, nsid>>
StoreFlush ==
    /\ More /\ Store = "redis" /\ stored # {}
    /\ stored' = {}
    /\ Step("flush", [n |-> Cardinality(stored)], [ok |-> TRUE])
    /\ UNCHANGED <<br, snaps, allowed, idpOK, member, pw, usedRT, nsid>>

\* what can be seen of the state from outside: does each browser hold a session cookie, how many sessions does the store hold
Proj == [b1 |-> br["b1"].user # "none", b2 |-> br["b2"].user # "none", nstored |-> IF Store = "redis" THEN Cardinality(stored) ELSE 0,
         nsnaps |-> Len(snaps)]         \* (the number of credentials issued so far: the replay steps refer to them by index)
P == proj' = Append(proj, Proj')
\* (kept as a top-level disjunction: TLC's simulator then draws an action first and only evaluates that action's successors)
Next == \/ (\E b \in Browsers, u \in Users : Login(b, u)) /\ P
        \/ (\E b \in Browsers, ep \in {"proxy", "authonly", "userinfo"} : Request(b, ep)) /\ P
        \/ (\E b \in Browsers : SignOut(b) \/ Tamper(b)) /\ P
        \/ (\E b \in Browsers, i \in 1..3 : Replay(b, Len(snaps) + 1 - i)) /\ P
        \/ (\E b \in Browsers, to \in {"stale", "expired"} : Age(b, to)) /\ P
        \/ (RulesChange \/ IdPToggle \/ StoreFlush \/ GroupChange("alice")) /\ P
        \/ (PwChange \/ \E b \in Browsers, v \in {1, 2} : BasicRequest(b, v)) /\ P
        \/ (\E u \in Users, k \in {"good", "expired"} : BearerRequest(u, k)) /\ P

\* ---- model-level properties -------------------------------------------------------------------------
\* a browser is only ever served as the user of the credential it presents
Last == hist[Len(hist)]
Isolation == (Len(hist) > 0 /\ Last.a = "request" /\ Last.req.served) => Last.req.user = br[Last.args.b].user
\* server-side store: a signed-out or flushed session id never authenticates again
Ended == Store = "redis" => \A i \in 1..Len(snaps) : snaps[i].sess.sid \notin stored => ~Exists(snaps[i].sess)

CaseRec == [fam |-> "lifecycle", cfg |-> [store |-> Store, refresh |-> RefreshOn], in |-> [store |-> Store, refresh |-> RefreshOn, steps |-> Len(hist)], steps |-> [i \in 1..Len(hist) |-> hist[i] @@ [impl |-> proj[i]]]]
EmitVocab == JsonSerialize("vocab.json", Vocab)
EmitCase  == (Len(hist) = MaxSteps) => CSVWrite("%1$s", <<ToJson(CaseRec)>>, "cases.ndjson")
=============================================================================
