----------------------------- MODULE StartParams -----------------------------
(* The authorization request that starts a login (C06: "the redirect that starts a login always targets the      *)
(* configured identity-provider authorization endpoint"; C05: it carries this login's challenge and nonce).         *)
(* The query of /oauth2/start may override login-URL parameters - but only those the operator configured with        *)
(* allow rules (loginURLParameters), only with values a rule admits, and never the parameters the proxy itself        *)
(* computes (client_id, redirect_uri, response_type, scope, state, nonce, code_challenge, code_challenge_method).     *)
(* A login that starts without the user asking for it (protected path with skip-provider-button) takes no           *)
(* overrides at all.                                                                                                *)
(* Configured here:  prompt        default "login", may be set to "consent" or "select_account"                       *)
(*                   login_hint    no default, may be set to anything matching ^[a-z]+@example\.com$                  *)
(*                   organization  fixed "myorg" (no allow rule)                                                       *)
(*                   (hd is not configured at all)                                                                    *)
EXTENDS Naturals, Sequences, FiniteSets, TLC, Json, CSV

CONSTANTS Tier

Vocab == [ atoms |-> [ none |-> "" ] ]

Core         == {"client_id", "redirect_uri", "response_type", "scope", "state", "nonce", "code_challenge", "code_challenge_method"}
Configured   == {"prompt", "login_hint", "organization"}
Unconfigured == {"hd"}
Names        == Core \cup Configured \cup Unconfigured
HasDefault(n) == n \in {"prompt", "organization"}
HasAllow(n)   == n \in {"prompt", "login_hint"}

\* what the client puts under a name: one value a rule admits ("ok" - for names without allow rule there is no such value, so a plausible
\* one), one value no rule admits ("bad"), or both ("both": the inadmissible one first)
Shapes == {"ok", "bad", "both"}
Entries == {"start", "protected"}     \* /oauth2/start?...  |  a protected path with the same query, skip-provider-button configured

\* the values the provider must see under name n, as tags: own = computed by the proxy (exactly one, and not what the client sent),
\* default = the configured default, ok = the client's admissible value
Req_Values(entry, q, n) ==
    IF n \in Core THEN <<"own">>
    ELSE IF n \in Unconfigured THEN <<>>
    ELSE IF entry = "start" /\ n \in DOMAIN q /\ HasAllow(n) /\ q[n] \in {"ok", "both"} THEN <<"ok">>
    ELSE IF HasDefault(n) THEN <<"default">> ELSE <<>>

VARIABLE c
Init == \E e \in Entries : \E ns \in SUBSET Names :
          /\ Cardinality(ns) \in (IF Tier = "quick" THEN {1, 2} ELSE {1, 2, 3})
          /\ \E q \in [ns -> Shapes] : c = [entry |-> e, query |-> q]
Next == UNCHANGED c

CaseRec == [fam |-> "startparams", in |-> [entry |-> c.entry, query |-> c.query],
            req |-> [endpoint |-> TRUE, panic |-> FALSE, params |-> [n \in Names |-> Req_Values(c.entry, c.query, n)]]]
EmitVocab == JsonSerialize("vocab.json", Vocab)
EmitCase  == CSVWrite("%1$s", <<ToJson(CaseRec)>>, "cases.ndjson")
=============================================================================
