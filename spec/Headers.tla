------------------------------- MODULE Headers -------------------------------
(* C07: identity headers at the upstream (and on the auth-only response) are   *)
(* exactly those derived from the authenticated session.                        *)
(*                                                                              *)
(* A header value is observed as a sequence of tags: the comma-separated pieces *)
(* of the header as received, each mapped back to what it stands for:           *)
(*   <<"plain", f>>, <<"basic", f>>, <<"bearer", f>>  derived from session field f *)
(*   <<"client", "s1">>, <<"client", "s2">>, <<"client", "cred">>  sent by the client *)
(* LegacyToHeaders transcribes LegacyHeaders.convert().                          *)
EXTENDS Naturals, Sequences, FiniteSets, TLC, Json, CSV, Str

CONSTANTS Tier

Vocab == [ atoms |-> [ none |-> "" ] ]

\* ---- configuration: legacy flags -> header lists ------------------------------------------
Flags == [pba : BOOLEAN, pat : BOOLEAN, puh : BOOLEAN, paz : BOOLEAN,          \* pass-basic-auth, -access-token, -user-headers, -authorization-header
          sx : BOOLEAN, sba : BOOLEAN, saz : BOOLEAN,                           \* set-xauthrequest, set-basic-auth, set-authorization-header
          pe : BOOLEAN, strip : BOOLEAN, pw : BOOLEAN]                           \* prefer-email-to-user, skip-auth-strip-headers, basic-auth-password set

H(n, kind, claim) == [name |-> n, kind |-> kind, claim |-> claim]
BasicHdr(f)  == H("Authorization", "basic", IF f.pe THEN "email" ELSE "user")
BearerHdr    == H("Authorization", "bearer", "it")
UserHdrs(f)  == <<H("X-Forwarded-Groups", "plain", "groups")>> \o
                (IF f.pe THEN <<H("X-Forwarded-User", "plain", "email")>>
                 ELSE <<H("X-Forwarded-User", "plain", "user"), H("X-Forwarded-Email", "plain", "email")>>)
ReqHeaders(f) ==
    (IF f.pba /\ f.pw THEN <<BasicHdr(f)>> ELSE <<>>) \o
    (IF f.pba \/ f.puh THEN UserHdrs(f) \o <<H("X-Forwarded-Preferred-Username", "plain", "pu")>> ELSE <<>>) \o
    (IF f.pat THEN <<H("X-Forwarded-Access-Token", "plain", "at")>> ELSE <<>>) \o
    (IF f.paz THEN <<BearerHdr>> ELSE <<>>)
RespHeaders(f) ==
    (IF f.sx THEN <<H("X-Auth-Request-User", "plain", "user"), H("X-Auth-Request-Email", "plain", "email"),
                    H("X-Auth-Request-Preferred-Username", "plain", "pu"), H("X-Auth-Request-Groups", "plain", "groups")>> \o
                  (IF f.pat THEN <<H("X-Auth-Request-Access-Token", "plain", "at")>> ELSE <<>>)
     ELSE <<>>) \o
    (IF f.sba THEN <<BasicHdr(f)>> ELSE <<>>) \o
    (IF f.saz THEN <<BearerHdr>> ELSE <<>>)
Preserve(f) == ~f.strip

Names(hs) == {hs[i].name : i \in 1..Len(hs)}
Unique(hs) == \A i, j \in 1..Len(hs) : i # j => hs[i].name # hs[j].name
\* configurations the proxy's validation accepts: unique names, a password wherever a basic header is built
ValidFlags(f) == Unique(ReqHeaders(f)) /\ Unique(RespHeaders(f)) /\ (f.sba => f.pw)

\* ---- sessions ------------------------------------------------------------------------------
\* a session: which fields are non-empty (the harness knows the concrete values) and the groups
Sess(user, email, pu, at, it, groups) == [none |-> FALSE, user |-> user, email |-> email, pu |-> pu, at |-> at, it |-> it, groups |-> groups]
NoSession == [none |-> TRUE, user |-> FALSE, email |-> FALSE, pu |-> FALSE, at |-> FALSE, it |-> FALSE, groups |-> <<>>]
\* session sources and the session they yield
SessionOf(src) ==
    CASE src = "cookie"        -> Sess(TRUE, TRUE, TRUE, TRUE, TRUE, <<"g1", "g2">>)     \* OIDC login, all fields
      [] src = "cookie_nogrp"  -> Sess(TRUE, TRUE, FALSE, TRUE, TRUE, <<>>)              \* user without groups / preferred_username
      [] src = "cookie_minimal" -> Sess(TRUE, TRUE, TRUE, FALSE, FALSE, <<"g1", "g2">>)   \* --session-cookie-minimal: the cookie carries no tokens
      [] src = "cookie_emptygrp" -> Sess(TRUE, TRUE, TRUE, TRUE, TRUE, <<"g1", "g2">>)   \* the IdP lists the groups "", g1, g2: the empty one yields no value
      [] src = "bearer"        -> Sess(TRUE, TRUE, TRUE, TRUE, TRUE, <<"g1", "g2">>)     \* OIDC bearer token: at = it = the token
      [] src = "xbearer"       -> Sess(TRUE, TRUE, TRUE, TRUE, TRUE, <<"g1", "g2">>)     \* extra-issuer bearer token
      [] src = "basic"         -> Sess(TRUE, FALSE, FALSE, FALSE, FALSE, <<"hg1">>)      \* htpasswd via Authorization: Basic
      [] src = "form"          -> Sess(TRUE, FALSE, FALSE, FALSE, FALSE, <<"hg1">>)      \* htpasswd via the sign-in form (cookie session)
      [] src = "cookie_bypass" -> Sess(TRUE, TRUE, TRUE, TRUE, TRUE, <<"g1", "g2">>)     \* valid cookie on a skip-auth route
      [] OTHER                 -> NoSession                                               \* "none_bypass": no credential, skip-auth route
Sources == {"cookie", "cookie_nogrp", "cookie_emptygrp", "cookie_minimal", "bearer", "xbearer", "basic", "form", "cookie_bypass", "none_bypass"}
\* the client's own Authorization header is the credential for these sources
UsesAuthorization(src) == src \in {"bearer", "xbearer", "basic"}
\* basic auth with prefer-email-to-user copies the user name into the e-mail field
Effective(src, f) == LET s == SessionOf(src) IN IF src = "basic" /\ f.pe THEN [s EXCEPT !.email = TRUE] ELSE s
EmailTag(src, f) == IF src = "basic" /\ f.pe THEN "user" ELSE "email"     \* which concrete value the e-mail field holds

\* ---- requirement ---------------------------------------------------------------------------
FieldVals(s, src, f, claim) ==
    IF s.none THEN <<>>
    ELSE CASE claim = "groups" -> s.groups
           [] claim = "email"  -> IF s.email THEN <<EmailTag(src, f)>> ELSE <<>>
           [] OTHER            -> IF s[claim] THEN <<claim>> ELSE <<>>
Derived(s, src, f, h) == LET v == FieldVals(s, src, f, h.claim) IN [i \in 1..Len(v) |-> <<h.kind, v[i]>>]

\* a bearer credential "Bearer <token>" is byte-for-byte the value derived from the session's id_token (the same token)
CredTag(src) == IF src \in {"bearer", "xbearer"} THEN <<"bearer", "it">> ELSE <<"client", "cred">>
Spoofs == {"absent", "canonical", "lower", "upper", "mixed", "repeated", "comma"}
ClientTags(name, src, spoof) ==
    IF name = "Authorization" /\ UsesAuthorization(src) THEN << CredTag(src) >>
    ELSE CASE spoof = "absent"                    -> <<>>
           [] spoof \in {"repeated", "comma"}     -> << <<"client", "s1">>, <<"client", "s2">> >>
           [] OTHER                               -> << <<"client", "s1">> >>

Expected(h, src, f, spoof) ==
    (IF Preserve(f) THEN ClientTags(h.name, src, spoof) ELSE <<>>) \o Derived(Effective(src, f), src, f, h)
\* response headers: nothing is stripped (the client's request headers are irrelevant)
ExpectedResp(h, src, f) == Derived(Effective(src, f), src, f, h)

\* "exactly the values": as a multiset - the order of the values of one header is not the property's business
Bag(tags) == [bag |-> tags]
Req_Upstream(src, f, spoof) == LET hs == ReqHeaders(f) IN [i \in 1..Len(hs) |-> [name |-> hs[i].name, tags |-> Bag(Expected(hs[i], src, f, spoof))]]
Req_AuthOnly(src, f)        == LET hs == RespHeaders(f) IN [i \in 1..Len(hs) |-> [name |-> hs[i].name, tags |-> Bag(ExpectedResp(hs[i], src, f))]]

\* ---- cases ---------------------------------------------------------------------------------
Mk(ep, f, src, spoof, st) == [endpoint |-> ep, flags |-> f, source |-> src, spoof |-> spoof, store |-> st]
RespFlagsDefault(f) == ~f.sx /\ ~f.sba /\ ~f.saz
ReqFlagsDefault(f)  == f.pba /\ f.puh /\ ~f.paz /\ f.strip
InScope(c) ==
    /\ ValidFlags(c.flags)
    /\ (c.endpoint = "upstream" => RespFlagsDefault(c.flags))
    /\ (c.endpoint = "authonly" => ReqFlagsDefault(c.flags) /\ c.spoof = "absent" /\ c.source \notin {"cookie_bypass"})
    /\ (c.store = "redis" => c.source \in {"cookie", "form"} /\ c.spoof \in {"absent", "mixed"})
    \* htpasswd sessions have no tokens: the access-token flag adds nothing for them (and every htpasswd proxy costs an inotify instance)
    /\ (c.source \in {"basic", "form"} => ~c.flags.pat /\ (Tier = "quick" => c.flags.puh))
    /\ (Tier = "quick" => /\ c.spoof \in {"absent", "lower", "repeated", "comma"}
                          /\ (c.endpoint = "upstream" /\ c.spoof \in {"lower", "comma"} => c.source \in {"cookie", "none_bypass", "basic"})
                          /\ (c.source = "cookie_emptygrp" => c.spoof = "absent")
                          /\ (c.source = "cookie_minimal" => c.spoof = "absent" /\ c.store = "cookie"))
    \* (validation refuses token-derived headers together with session-cookie-minimal)
    /\ (c.source = "cookie_minimal" => c.store = "cookie" /\ ~c.flags.pat /\ ~c.flags.paz /\ ~c.flags.saz)

\* ---- structured header lists (injectRequestHeaders / injectResponseHeaders) -------------------
\* One configured header "X-Vp-Ident", written by the operator in some letter case, with preserveRequestValue on / off and one
\* or two claim values in one of the three claim-source forms.  Same requirement: client values only if preserved, then the
\* values derived from the session (empty and unknown claims give nothing).
Spellings == {"canonical", "upper", "lower", "mixed"}
SKinds    == {"plain", "prefixed", "basic", "two", "dup", "none"}     \* two: the claim and the e-mail as two values of the one header; dup: the claim twice;
                                                                     \* none: a configured name with an EMPTY value list (nothing to inject, but still a name the operator configured)
SClaims   == {"user", "email", "groups", "pu", "at", "unknown"}
SSources  == {"cookie", "cookie_nogrp", "cookie_emptygrp", "bearer", "basic", "none_bypass", "cookie_bypass"}
NoFlags   == [pba |-> FALSE, pat |-> FALSE, puh |-> FALSE, paz |-> FALSE, sx |-> FALSE, sba |-> FALSE, saz |-> FALSE, pe |-> FALSE, strip |-> TRUE, pw |-> FALSE]
SVals(s, src, claim) == IF claim = "unknown" THEN <<>> ELSE FieldVals(s, src, NoFlags, claim)
STagKind(k) == IF k \in {"two", "dup"} THEN "plain" ELSE k
SDerived(d) ==
    LET s == SessionOf(d.source)
        v == IF d.kind = "none" THEN <<>> ELSE SVals(s, d.source, d.claim) \o (IF d.kind = "two" THEN SVals(s, d.source, "email") ELSE IF d.kind = "dup" THEN SVals(s, d.source, d.claim) ELSE <<>>)
    IN [i \in 1..Len(v) |-> <<STagKind(d.kind), v[i]>>]
SExpected(d) ==
    (IF d.endpoint = "upstream" /\ d.preserve THEN ClientTags("X-Vp-Ident", d.source, d.spoof) ELSE <<>>) \o SDerived(d)
SInScope(d) ==
    /\ (d.neighbour # "none" => d.kind \in {"plain", "none"} /\ ~d.preserve /\ d.endpoint = "upstream" /\ d.spelling = "canonical" /\ d.claim \in {"user", "unknown"})
    /\ (d.kind = "none" => d.claim = "user")
    /\ (d.endpoint = "authonly" => d.spoof \in {"absent", "canonical"} /\ ~d.preserve /\ d.source # "cookie_bypass")
    /\ (d.source \in {"basic"} => d.claim \in {"user", "email", "groups", "unknown"})
    /\ (Tier = "quick" => /\ d.spoof \in {"absent", "canonical", "lower", "repeated"}
                          /\ d.source \in {"cookie", "cookie_nogrp", "cookie_emptygrp", "basic", "none_bypass"}
                          /\ (d.source = "cookie_emptygrp" => d.claim = "groups" /\ d.spoof = "absent")
                          /\ (d.kind = "dup" => d.claim = "groups" /\ d.spoof = "absent")
                          /\ d.claim \in {"user", "groups", "pu", "unknown"}
                          /\ d.kind \in {"plain", "basic", "two", "dup", "none"}
                          /\ (d.spoof \in {"canonical", "repeated"} => d.source \in {"cookie", "none_bypass"}))
\* neighbour: ANOTHER configured header (X-Vp-Other, preserveRequestValue on) stands before / after X-Vp-Ident in the list: what is decided for one
\* configured name says nothing about the next one
Neighbours == {"none", "preserved_before", "preserved_after"}
SMk2(ep, sp, pr, k, cl, src, spoof, nb) == [struct |-> TRUE, endpoint |-> ep, spelling |-> sp, preserve |-> pr, kind |-> k, claim |-> cl, source |-> src, spoof |-> spoof, store |-> "cookie", neighbour |-> nb]
SMk(ep, sp, pr, k, cl, src, spoof) == SMk2(ep, sp, pr, k, cl, src, spoof, "none")

VARIABLE c
Init == \/ \E ep \in {"upstream", "authonly"}, f \in Flags, src \in Sources, sp \in Spoofs, st \in {"cookie", "redis"} :
             c = Mk(ep, f, src, sp, st) /\ InScope(c)
        \/ \E ep \in {"upstream", "authonly"}, sp \in Spellings, pr \in BOOLEAN, k \in SKinds, cl \in SClaims, src \in SSources, spoof \in Spoofs, nb \in Neighbours :
             c = SMk2(ep, sp, pr, k, cl, src, spoof, nb) /\ SInScope(c)
Next == UNCHANGED c

IsStruct(d) == "struct" \in DOMAIN d
CaseRec(d) == [fam |-> "c07", in |-> d,
               req |-> [headers |-> IF IsStruct(d) THEN << [name |-> "X-Vp-Ident", tags |-> Bag(SExpected(d))] >>
                                    ELSE IF d.endpoint = "upstream" THEN Req_Upstream(d.source, d.flags, d.spoof) ELSE Req_AuthOnly(d.source, d.flags),
                        served |-> TRUE]]
EmitVocab == JsonSerialize("vocab.json", Vocab)
EmitCase  == CSVWrite("%1$s", <<ToJson(CaseRec(c))>>, "cases.ndjson")
=============================================================================
