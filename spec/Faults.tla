-------------------------------- MODULE Faults --------------------------------
(* C13: session-store failures fail closed.                                       *)
(* Scenarios are the store-operation sequences of the flows (as Refresh.tla and    *)
(* the handlers issue them with a healthy store); a fault replaces the reply of    *)
(* the k-th operation.  TLC enumerates (scenario, position, kind) singly and in    *)
(* pairs and states, per case, what the property forbids.                          *)
EXTENDS Naturals, Sequences, FiniteSets, TLC, Json, CSV, Str

CONSTANTS Pairs     \* TRUE: also every pair of faults (k1 < k2)

Vocab == [ atoms |-> [ none |-> "" ] ]

\* store operations of each scenario with a healthy store
Ops == [ login   |-> <<"set">>,                                                   \* callback: persist the new session
         form    |-> <<"set">>,                                                   \* htpasswd sign-in form
         request |-> <<"get">>,                                                   \* authenticated request, fresh session
         refresh |-> <<"get", "lock_obtain", "get", "set", "lock_release">>,      \* authenticated request, stale session
         signout |-> <<"get", "del">>,                                            \* sign-out with a valid session
         ready   |-> <<"ping">>,
         \* a probe that succeeded, then the store goes away, then the next probe at once (whatever the implementation remembers of the first)
         ready_after_ok |-> <<"ping", "ping">> ]
Scenarios == DOMAIN Ops

ValueKinds == {"corrupt", "truncate", "short", "missing"}       \* only a read returns a value
\* outage: error before effect for this operation AND every later one (store unreachable from here on; defeats any retry)
\* vanish: no failure at all - the key is gone (evicted, flushed, deleted by a concurrent sign-out) at the moment the write arrives,
\* and the write itself answers normally.  Whatever the implementation makes of that: a cookie it hands out must load.
\* slow_err: the operation "times out" - the store does not answer for 2.5 s (less than the client's own time-out), then fails without effect.
\* Whatever the implementation does while waiting, the outcome is that of a failed operation.
Kinds(op) == {"err_before", "err_after", "outage"} \cup (IF op = "get" THEN ValueKinds ELSE {}) \cup (IF op = "set" THEN {"vanish"} ELSE {})
             \cup (IF op \in {"get", "set", "del"} THEN {"slow_err"} ELSE {})

\* the serve decision depends on this operation (it precedes and feeds it); failures after the decision may be answered either way
Decisive(scn, k) ==
    CASE scn = "request" -> TRUE
      [] scn = "refresh" -> Ops[scn][k] # "lock_release"
      [] OTHER           -> FALSE
\* the operation persists the session whose cookie the response would hand out
Persists(scn, k) == Ops[scn][k] = "set"

Fault(k, kind) == [k |-> k, kind |-> kind]
FaultSets(scn) ==
    LET single == {<<Fault(k, kd)>> : k \in 1..Len(Ops[scn]), kd \in {"err_before", "err_after", "outage", "vanish", "slow_err"} \cup ValueKinds}
        valid1 == {f \in single : f[1].kind \in Kinds(Ops[scn][f[1].k]) /\ (scn = "ready_after_ok" => f[1].k = 2 /\ f[1].kind = "outage")}
        pairs  == {<<f1[1], f2[1]>> : f1 \in {f \in valid1 : f[1].kind \notin {"outage", "vanish", "slow_err"}}, f2 \in {f \in valid1 : f[1].kind \notin {"vanish", "slow_err"}}}
    IN valid1 \cup (IF Pairs THEN {p \in pairs : p[1].k < p[2].k} ELSE {})

\* ---- what the property forbids for a case ---------------------------------------------------------
Hit(fs, P(_)) == \E i \in 1..Len(fs) : P(fs[i])
\* an effective failure of a decisive operation: the request must not be forwarded as authenticated.
\* (the first fault always fires; a later one may not be reached, which only makes the case easier)
MustNotServe(scn, fs) == Decisive(scn, fs[1].k)
\* a failed write: no cookie for that session
MustNotSetCookie(scn, fs) == Hit(fs, LAMBDA f : Persists(scn, f.k))
\* whatever happens: no crash, and a cookie that was handed out loads a session once the store is healthy again
Always(scn) == [panic |-> FALSE, brokenCookie |-> FALSE]
               @@ (IF scn = "signout" THEN [falseSuccess |-> FALSE] ELSE <<>>)
               \* (the store IS unreachable at the second probe whether or not the implementation asks it: state-based, not positional)
               @@ (IF scn = "ready_after_ok" THEN [status |-> [not |-> 200]] ELSE <<>>)
\* (Judging by the FIRST fault: the requirement below is stated for it; if the implementation repeats that operation and the repeat
\* succeeds, or issues other operations before it than the scenario has, the scenario does not describe this implementation.)
\* If the implementation repeats a failed operation and the repeat succeeds (a retry), the operation did not fail in the
\* sense of the property and the operation sequence is no longer the scenario's: only Always applies (reported as diverged).
Req(scn, fs) ==
    IF fs[1].kind = "vanish" THEN Always(scn) ELSE
    [panic |-> FALSE, brokenCookie |-> FALSE]
    @@ (IF scn \in {"request", "refresh"} /\ MustNotServe(scn, fs) THEN [served |-> FALSE] ELSE <<>>)
    @@ (IF MustNotSetCookie(scn, fs) THEN [session |-> [not |-> "set"]] ELSE <<>>)
    @@ (IF scn = "signout" THEN [falseSuccess |-> FALSE] ELSE <<>>)          \* never "302" while the old cookie still authenticates
    @@ (IF scn \in {"ready", "ready_after_ok"} THEN [status |-> [not |-> 200]] ELSE <<>>)

VARIABLE c
Init == \E scn \in Scenarios, fs \in UNION {FaultSets(s) : s \in Scenarios} :
           fs \in FaultSets(scn) /\ c = [scenario |-> scn, faults |-> fs, ops |-> Ops[scn]]
Next == UNCHANGED c

CaseRec == [fam |-> "faults", in |-> [first |-> [op |-> Ops[c.scenario][c.faults[1].k], kind |-> c.faults[1].kind]] @@ [c EXCEPT !.faults = [i \in 1..Len(c.faults) |-> [k |-> c.faults[i].k, kind |-> c.faults[i].kind, op |-> Ops[c.scenario][c.faults[i].k]]]],
            req |-> Req(c.scenario, c.faults), reqIfRecovered |-> Always(c.scenario)]
EmitVocab == JsonSerialize("vocab.json", Vocab)
EmitCase  == CSVWrite("%1$s", <<ToJson(CaseRec)>>, "cases.ndjson")
=============================================================================
