CONSTANTS
  MaxSteps = 3
  Store = "cookie"
  RefreshOn = TRUE
INIT Init
NEXT Next
INVARIANTS Isolation Ended EmitCase
CHECK_DEADLOCK FALSE
