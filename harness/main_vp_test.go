//go:build verif

package main

// Entry point of the conformance harness. The orchestrator (/verif/check) compiles this
// package into /repo's package main with -overlay and runs TestVPDriver with
//   VP_FAMILY  driver name
//   VP_CASES   ndjson of TLC-generated cases / behaviours (input)
//   VP_OUT     ndjson of observations (output, one line per case or step)
//   VP_SEED    integer seed for concretisation choices
//   VP_TIER    quick | thorough
//   VP_WORK    scratch directory
// The harness contains no property logic: it concretises abstract cases, executes them
// against the real proxy and projects what happened to abstract observations.

import (
	"sync/atomic"
	"bufio"
	"encoding/json"
	"fmt"
	"math/rand"
	"net/http"
	"net/http/httptest"
	"net/url"
	"time"
	"os"
	"runtime"
	"strconv"
	"strings"
	"sync"
	"testing"

	middlewareapi "github.com/oauth2-proxy/oauth2-proxy/v7/pkg/apis/middleware"
)

type vpCase struct {
	ID   int                    `json:"id"`
	Must bool                   `json:"must"` // (redirect family) always run the end-to-end battery for this case
	Fam  string                 `json:"fam"`
	Cfg  json.RawMessage        `json:"cfg"`
	In   map[string]interface{} `json:"in"`
	Req  map[string]interface{} `json:"req"`
	Impl map[string]interface{} `json:"impl"`
	// behaviours
	Steps []vpStep `json:"steps"`
}

type vpStep struct {
	A    string                 `json:"a"`
	Args map[string]interface{} `json:"args"`
	Req  map[string]interface{} `json:"req"`
	Impl map[string]interface{} `json:"impl"`
}

type vpOut struct {
	ID    int                      `json:"id"`
	Obs   map[string]interface{}   `json:"obs,omitempty"`
	Steps []map[string]interface{} `json:"steps,omitempty"`
	Conc  interface{}              `json:"conc,omitempty"` // concretisation (exact bytes) for replay files
	Err   string                   `json:"err,omitempty"`  // infrastructure problem (no verdict)
}

type vpDriver func(t *testing.T, env *vpEnv)

type vpEnv struct {
	family string
	seed   int64
	tier   string
	cases  []vpCase
	outMu  sync.Mutex
	out    *bufio.Writer
	rng    *rand.Rand
	extra  map[string]string
}

func (e *vpEnv) emit(o vpOut) {
	b, err := json.Marshal(o)
	if err != nil {
		b, _ = json.Marshal(vpOut{ID: o.ID, Err: "marshal: " + err.Error()})
	}
	e.outMu.Lock()
	e.out.Write(b)
	e.out.WriteByte('\n')
	e.outMu.Unlock()
}

var vpDrivers = map[string]vpDriver{}

func vpRegister(name string, d vpDriver) { vpDrivers[name] = d }

func TestVPDriver(t *testing.T) {
	fam := os.Getenv("VP_FAMILY")
	if fam == "" {
		t.Skip("VP_FAMILY not set")
	}
	d, ok := vpDrivers[fam]
	if !ok {
		t.Fatalf("unknown family %q", fam)
	}
	seed, _ := strconv.ParseInt(os.Getenv("VP_SEED"), 10, 64)
	env := &vpEnv{family: fam, seed: seed, tier: os.Getenv("VP_TIER"), rng: rand.New(rand.NewSource(seed)), extra: map[string]string{}}
	if env.tier == "" {
		env.tier = "quick"
	}
	if p := os.Getenv("VP_CASES"); p != "" {
		f, err := os.Open(p)
		if err != nil {
			t.Fatalf("open cases: %v", err)
		}
		sc := bufio.NewScanner(f)
		sc.Buffer(make([]byte, 1<<20), 64<<20)
		for sc.Scan() {
			line := strings.TrimSpace(sc.Text())
			if line == "" {
				continue
			}
			var c vpCase
			if err := json.Unmarshal([]byte(line), &c); err != nil {
				t.Fatalf("bad case line: %v: %.200s", err, line)
			}
			if c.ID == 0 {
				c.ID = len(env.cases) + 1
			}
			env.cases = append(env.cases, c)
		}
		f.Close()
	}
	of, err := os.Create(os.Getenv("VP_OUT"))
	if err != nil {
		t.Fatalf("create out: %v", err)
	}
	defer of.Close()
	env.out = bufio.NewWriterSize(of, 1<<20)
	defer env.out.Flush()
	d(t, env)
	if vpMon != nil {
		vpMon.write("", map[string]interface{}{"kind": "summary", "family": fam, "responsesWithProxyCookies": vpMon.n, "requests": atomic.LoadInt64(&vpRidSeq)})
	}
}

// parallel runs f over all cases on GOMAXPROCS workers; each worker gets its own rng.
func (e *vpEnv) parallel(n int, f func(worker int, rng *rand.Rand, c *vpCase)) {
	if n <= 0 {
		n = runtime.GOMAXPROCS(0)
	}
	var wg sync.WaitGroup
	ch := make(chan *vpCase, 256)
	for i := 0; i < n; i++ {
		wg.Add(1)
		go func(i int) {
			defer wg.Done()
			rng := rand.New(rand.NewSource(e.seed*1000 + int64(i)))
			for c := range ch {
				f(i, rng, c)
			}
		}(i)
	}
	for i := range e.cases {
		ch <- &e.cases[i]
	}
	close(ch)
	wg.Wait()
}

func jsonUnmarshal(b []byte, v interface{}) error { return json.Unmarshal(b, v) }

// ---------------------------------------------------------------------------------------------
// generic accessors for abstract inputs

func vpS(m map[string]interface{}, k string) string {
	if v, ok := m[k]; ok {
		switch x := v.(type) {
		case string:
			return x
		case float64:
			return strconv.FormatFloat(x, 'f', -1, 64)
		case bool:
			return strconv.FormatBool(x)
		}
	}
	return ""
}

func vpB(m map[string]interface{}, k string) bool {
	if v, ok := m[k]; ok {
		if b, ok := v.(bool); ok {
			return b
		}
	}
	return false
}

func vpI(m map[string]interface{}, k string) int {
	if v, ok := m[k]; ok {
		switch x := v.(type) {
		case float64:
			return int(x)
		case string:
			n, _ := strconv.Atoi(x)
			return n
		}
	}
	return 0
}

func vpL(m map[string]interface{}, k string) []string {
	var out []string
	if v, ok := m[k]; ok {
		if l, ok := v.([]interface{}); ok {
			for _, x := range l {
				switch y := x.(type) {
				case string:
					out = append(out, y)
				case float64:
					out = append(out, strconv.FormatFloat(y, 'f', -1, 64))
				}
			}
		}
	}
	return out
}

func vpM(m map[string]interface{}, k string) map[string]interface{} {
	if v, ok := m[k]; ok {
		if mm, ok := v.(map[string]interface{}); ok {
			return mm
		}
	}
	return map[string]interface{}{}
}

func vpCfgFrom(raw json.RawMessage, m map[string]interface{}) (*vpCfg, error) {
	cfg := &vpCfg{}
	if len(raw) > 0 {
		if err := json.Unmarshal(raw, cfg); err != nil {
			return nil, err
		}
	} else if m != nil {
		b, _ := json.Marshal(m)
		if err := json.Unmarshal(b, cfg); err != nil {
			return nil, err
		}
	}
	return cfg, nil
}

// ---------------------------------------------------------------------------------------------
// flow helpers (the browser's side of the login flow)

func (w *vpWorld) prefix() string { return w.opts.ProxyPrefix }

// startLogin: GET <prefix>/start?rd=... with the browser's cookies; applies Set-Cookie to the jar.
func (w *vpWorld) startLogin(j *vpJar, rd string, extra ...[2]string) *vpResp {
	t := w.prefix() + "/start"
	if rd != "" {
		t += "?rd=" + url.QueryEscape(rd)
	}
	r := w.do(vpReq{Target: t, Cookie: j.header(), Header: extra})
	j.applyAll(r)
	return r
}

func (j *vpJar) applyAll(r *vpResp) {
	for _, c := range r.Cookies {
		j.applyCookie(c)
	}
}

// callback: GET <prefix>/callback?code=..&state=.. with the given raw Cookie header.
func (w *vpWorld) callbackRaw(cookie, code, state string) *vpResp {
	q := url.Values{}
	if code != "" {
		q.Set("code", code)
	}
	q.Set("state", state)
	return w.do(vpReq{Target: w.prefix() + "/callback?" + q.Encode(), Cookie: cookie})
}

// login runs a complete honest login of user in jar j and returns the callback response.
func (w *vpWorld) login(j *vpJar, user, rd string) (*vpResp, error) {
	s := w.startLogin(j, rd)
	if s.Status != 302 || !strings.HasPrefix(s.Location, w.idp.issuer()+"/authorize") {
		return s, fmt.Errorf("start: unexpected response %d %q", s.Status, s.Location)
	}
	code, state, err := w.idp.authorize(s.Location, user)
	if err != nil {
		return s, err
	}
	cb := w.callbackRaw(j.header(), code, state)
	j.applyAll(cb)
	return cb, nil
}

func (w *vpWorld) get(j *vpJar, target string, hdr ...[2]string) *vpResp {
	c := ""
	if j != nil {
		c = j.header()
	}
	r := w.do(vpReq{Target: target, Cookie: c, Header: hdr})
	if j != nil {
		j.applyAll(r)
	}
	return r
}

// ageSession back-dates the session the jar holds by d: it is loaded through the real store, its creation
// time moved into the past and saved again through the real store (as if the login had happened earlier).
// hostReq supplies Host / forwarding headers so that cookie attributes match those of the jar's cookies.
func (w *vpWorld) ageSession(j *vpJar, d time.Duration, hostReq vpReq) error {
	var sb strings.Builder
	host := hostReq.Host
	if host == "" {
		host = vpHost
	}
	sb.WriteString("GET / HTTP/1.1\r\nHost: " + host + "\r\n")
	for _, h := range hostReq.Header {
		sb.WriteString(h[0] + ": " + h[1] + "\r\n")
	}
	sb.WriteString("Cookie: " + j.header() + "\r\n\r\n")
	req, err := http.ReadRequest(bufioReader(sb.String()))
	if err != nil {
		return err
	}
	// requests normally pass the scope middleware first (reverse-proxy flag lives in the request scope)
	req = middlewareapi.AddRequestScope(req, &middlewareapi.RequestScope{ReverseProxy: w.opts.ReverseProxy})
	s, err := w.proxy.sessionStore.Load(req)
	if err != nil {
		return fmt.Errorf("load: %v", err)
	}
	t := time.Now().Add(-d)
	s.CreatedAt = &t
	rec := httptest.NewRecorder()
	if err := w.proxy.sessionStore.Save(rec, req, s); err != nil {
		return fmt.Errorf("save: %v", err)
	}
	for _, c := range rec.Result().Cookies() {
		j.applyCookie(c)
	}
	return nil
}

// ---------------------------------------------------------------------------------------------
// smoke test (used by ./check setup)

func TestVPSmoke(t *testing.T) {
	for _, store := range []string{"cookie", "redis"} {
		w, err := vpNewWorld(&vpCfg{Store: store, PKCE: "S256"})
		if err != nil {
			t.Fatalf("world(%s): %v", store, err)
		}
		j := vpNewJar()
		r := w.get(j, "/private")
		if c := w.classify(r); c != "signin" {
			t.Fatalf("%s: unauthenticated request classified %q (status %d)", store, c, r.Status)
		}
		cb, err := w.login(j, "alice", "/landing?x=1")
		if err != nil {
			t.Fatalf("%s: login: %v", store, err)
		}
		if cb.Status != 302 || cb.Location != "/landing?x=1" || w.sessionCookieEffect(cb) != "set" {
			t.Fatalf("%s: callback: %d %q %s body=%.300s", store, cb.Status, cb.Location, w.sessionCookieEffect(cb), cb.Body)
		}
		r = w.get(j, "/private")
		if c := w.classify(r); c != "upstream" || r.UpLast == nil || r.UpLast.Header.Get("X-Forwarded-Email") != "alice@example.com" {
			t.Fatalf("%s: authenticated request classified %q %+v", store, c, r.UpLast)
		}
		so := w.get(j, w.prefix()+"/sign_out")
		if so.Status != 302 {
			t.Fatalf("%s: sign_out %d", store, so.Status)
		}
		r = w.get(j, "/private")
		if c := w.classify(r); c != "signin" {
			t.Fatalf("%s: after sign-out classified %q", store, c)
		}
		if store == "redis" && len(w.redis.ops(0)) == 0 {
			t.Fatalf("redis hook saw no operations")
		}
		w.close()
	}
}
