-------------------------------- MODULE Shapes --------------------------------
(* C19: no request can crash request handling.                                     *)
(* A grammar of abstract request shapes crossed with a sweep of configurations;     *)
(* every abstract case is concretised several times with seeded random bytes and     *)
(* sent to the real proxy's ServeHTTP under recover().  The only requirement is      *)
(* "no panic" (and an HTTP status was produced).  The same monitor (panic = FALSE)    *)
(* is part of the requirement of every other family's cases.                          *)
EXTENDS Naturals, Sequences, FiniteSets, TLC, Json, CSV

CONSTANTS Tier

Vocab == [ atoms |-> [ none |-> "" ] ]

Claims == {"access_token", "id_token", "created_at", "expires_on", "refresh_token", "email", "user", "groups", "preferred_username", "unknown_claim"}
IPHdrs == {"X-Real-IP", "X-Forwarded-For", "X-ProxyUser-IP", "X-Envoy-External-Address", "CF-Connecting-IP"}

\* configuration variants: the default, plus one deviation at a time (and one with two)
CfgDefault == [claim |-> "none", where |-> "request", store |-> "cookie", perReq |-> FALSE, encode |-> FALSE, rp |-> "off"]
Cfgs == {CfgDefault}
          \cup {[CfgDefault EXCEPT !.claim = cl, !.where = wh] : cl \in Claims, wh \in {"request", "response"}}
          \cup {[CfgDefault EXCEPT !.store = "redis"], [CfgDefault EXCEPT !.perReq = TRUE], [CfgDefault EXCEPT !.encode = TRUE],
                [CfgDefault EXCEPT !.perReq = TRUE, !.encode = TRUE], [CfgDefault EXCEPT !.store = "redis", !.claim = "created_at"]}
          \cup {[CfgDefault EXCEPT !.rp = h] : h \in IPHdrs}

Sources   == {"cookie", "bearer", "xbearer", "basic", "form", "none_bypass", "none"}
Endpoints == {"protected", "authonly", "authonly_q", "userinfo", "callback", "start", "sign_in_get", "sign_in_post", "sign_out", "static", "ready", "odd_target"}
CookieShapes == {"asis", "garbage", "short", "overlong", "stray_parts", "empty_value", "dup", "nul_bytes"}
AuthShapes   == {"asis", "bearer_junk", "bearer_jwtlike", "basic_badb64", "basic_nocolon", "three_fields", "empty", "only_scheme"}
\* blanks: white space (blanks, tabs, line ends) around and inside a nonce part of borderline length
StateShapes  == {"asis", "absent", "short", "nocolon", "badb64", "long", "percent", "blanks"}
FwdShapes    == {"none", "comma", "empty", "bracket", "unknown", "hostport_bad", "many", "v6zone"}
QueryShapes  == {"asis", "domains_only", "emails_only", "groups_only", "all_three", "empty_items", "semicolons", "bad_escape"}

Mk(cfg, src, ep, ck, au, st, fw, q) == [cfg |-> cfg, source |-> src, endpoint |-> ep, cookie |-> ck, auth |-> au, state |-> st, fwd |-> fw, query |-> q]
Varied(c) == Cardinality({d \in {"cookie", "auth", "state", "query"} : c[d] # "asis"} \cup (IF c.fwd # "none" THEN {"fwd"} ELSE {}))
InScope(c) ==
    /\ Varied(c) <= (IF Tier = "quick" THEN 1 ELSE 2)
    /\ (c.state # "asis" => c.endpoint = "callback")
    /\ (c.query # "asis" => c.endpoint \in {"authonly_q", "protected", "start"})
    /\ (c.fwd # "none" => c.cfg.rp # "off")
    /\ (c.cfg.rp # "off" => c.fwd # "none" \/ c.endpoint \in {"protected", "callback"})
    /\ (c.auth # "asis" => c.source \in {"none", "cookie"})
    /\ (c.cookie # "asis" => c.source \in {"none", "cookie", "form"})
    \* the claim sweep matters where headers are injected: served requests and the auth-only endpoint
    /\ (c.cfg.claim # "none" => c.endpoint \in {"protected", "authonly", "authonly_q"} /\ Varied(c) = 0)
    /\ (c.endpoint = "authonly_q" => c.query # "asis")
    /\ (Tier = "quick" /\ c.cfg # CfgDefault /\ c.cfg.claim = "none" /\ c.cfg.rp = "off" =>
            c.endpoint \in {"protected", "callback", "start", "sign_out"} /\ c.source \in {"cookie", "none"})

VARIABLE c
\* which dimensions deviate is chosen first, so that the enumeration does not run through the full product
Dims == {"cookie", "auth", "state", "fwd", "query"}
VariedSets == {v \in SUBSET Dims : Cardinality(v) <= (IF Tier = "quick" THEN 1 ELSE 2)}
Pick(v, d, all, dflt) == IF d \in v THEN all \ {dflt} ELSE {dflt}
Init == \E cfg \in Cfgs, src \in Sources, ep \in Endpoints, v \in VariedSets :
          \E ck \in Pick(v, "cookie", CookieShapes, "asis"), au \in Pick(v, "auth", AuthShapes, "asis"), st \in Pick(v, "state", StateShapes, "asis"),
             fw \in Pick(v, "fwd", FwdShapes, "none"), q \in Pick(v, "query", QueryShapes, "asis") :
          c = Mk(cfg, src, ep, ck, au, st, fw, q) /\ InScope(c)
Next == UNCHANGED c

CaseRec == [fam |-> "shapes", in |-> c, req |-> [panic |-> FALSE, answered |-> TRUE]]
EmitVocab == JsonSerialize("vocab.json", Vocab)
EmitCase  == CSVWrite("%1$s", <<ToJson(CaseRec)>>, "cases.ndjson")
=============================================================================
