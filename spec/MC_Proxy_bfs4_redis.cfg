CONSTANTS
  MaxSteps = 4
  Store = "redis"
  RefreshOn = TRUE
INIT Init
NEXT Next
INVARIANTS Isolation Ended EmitCase
CHECK_DEADLOCK FALSE
