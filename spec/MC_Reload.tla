------------------------------ MODULE MC_Reload ------------------------------
EXTENDS Reload
V(g, c) == [good |-> g, content |-> c]
\* add an entry, change a password, a malformed version in between, remove an entry
TheVersions == << V(TRUE, {"a1", "b1"}), V(TRUE, {"a1", "b1", "c1"}), V(FALSE, {"zz"}), V(TRUE, {"a2", "b1", "c1"}), V(TRUE, {"a2", "c1"}) >>
=============================================================================
