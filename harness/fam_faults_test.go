//go:build verif

package main

import (
	"fmt"
	"net/url"
	"sync"
	"testing"
	"time"
)

// faults: store-fault injection at the k-th store operation of a scenario (C13)
func init() {
	vpRegister("faults", func(t *testing.T, env *vpEnv) {
		var wg sync.WaitGroup
		ch := make(chan *vpCase, len(env.cases))
		for i := range env.cases {
			ch <- &env.cases[i]
		}
		close(ch)
		for i := 0; i < 8; i++ {
			wg.Add(1)
			go func() {
				defer wg.Done()
				w, err := vpNewWorld(&vpCfg{Store: "redis", Refresh: 3600, Htpasswd: true})
				if err == nil {
					// warm the lock scripts
					j := vpNewJar()
					if _, e := w.login(j, "alice", ""); e == nil {
						w.ageSession(j, 2*time.Hour, vpReq{})
						w.get(j, "/warm")
					}
				}
				if err != nil {
					for c := range ch {
						env.emit(vpOut{ID: c.ID, Err: "world: " + err.Error()})
					}
					return
				}
				defer w.close()
				for c := range ch {
					scn := vpS(c.In, "scenario")
					type fl struct {
						k    int
						kind string
					}
					var faults []fl
					if l, ok := c.In["faults"].([]interface{}); ok {
						for _, e := range l {
							m := e.(map[string]interface{})
							faults = append(faults, fl{vpI(m, "k"), vpS(m, "kind")})
						}
					}
					var seen []string
					var fired []string
					// operations (type and key) whose last execution was hit by a fault: a fault-free repeat clears the entry
					pendingFail := map[string]bool{}
					firstKey, firstRecovered := "", false // the first fault that fired, and whether that operation was later repeated successfully
					n := 0
					arm := func() {
						n = 0
						w.redis.fault = func(cmd *vpRedisCmd) *vpStoreFault {
							n++
							seen = append(seen, cmd.Op)
							for _, f := range faults {
								if f.k == n || (f.kind == "outage" && n >= f.k) {
									if cmd.Op != "get" && (f.kind == "corrupt" || f.kind == "truncate" || f.kind == "short" || f.kind == "missing") {
										// a value fault only exists for a read: at this position the implementation issued another
										// operation than the scenario's (it has diverged from it) - nothing is injected
										continue
									}
									if f.kind == "vanish" {
										// not a failure: the key disappears just before the write is executed, the write answers as usual
										if cmd.Op == "set" {
											w.mr.Del(cmd.Key)
											fired = append(fired, cmd.Op+":vanish")
										}
										return nil
									}
									fired = append(fired, cmd.Op+":"+f.kind)
									pendingFail[cmd.Op+" "+cmd.Key] = true
									if firstKey == "" {
										firstKey = cmd.Op + " " + cmd.Key
									}
									if f.kind == "outage" {
										return &vpStoreFault{Kind: "err_before"}
									}
									return &vpStoreFault{Kind: f.kind}
								}
							}
							delete(pendingFail, cmd.Op+" "+cmd.Key)
							if firstKey != "" && firstKey == cmd.Op+" "+cmd.Key {
								firstRecovered = true
							}
							return nil
						}
					}
					disarm := func() { w.redis.fault = nil }
					jar := vpNewJar()
					obs := map[string]interface{}{}
					var r *vpResp
					fail := ""
					switch scn {
					case "login":
						s := w.startLogin(jar, "")
						code, state, err := w.idp.authorize(s.Location, "alice")
						if err != nil {
							fail = "authorize: " + err.Error()
							break
						}
						arm()
						r = w.callbackRaw(jar.header(), code, state)
						disarm()
						jar.applyAll(r)
					case "form":
						form := url.Values{"username": {"hpuser"}, "password": {"hppass"}}
						arm()
						r = w.do(vpReq{Method: "POST", Target: w.prefix() + "/sign_in", Body: form.Encode(), Form: true})
						disarm()
						jar.applyAll(r)
					case "request", "refresh", "signout":
						if _, err := w.login(jar, "alice", ""); err != nil {
							fail = "login: " + err.Error()
							break
						}
						if scn == "refresh" {
							if err := w.ageSession(jar, 2*time.Hour, vpReq{}); err != nil {
								fail = "age: " + err.Error()
								break
							}
						}
						orig := jar.header()
						target := "/private"
						if scn == "signout" {
							target = w.prefix() + "/sign_out"
						}
						arm()
						r = w.do(vpReq{Target: target, Cookie: orig})
						disarm()
						if scn == "signout" {
							// once the store is healthy again: does the pre-sign-out cookie still authenticate?
							again := w.do(vpReq{Target: "/private", Cookie: orig})
							obs["loadableAfter"] = again.UpHits > 0
							obs["falseSuccess"] = r.Status >= 300 && r.Status < 400 && again.UpHits > 0
						}
					case "ready_after_ok":
						// one healthy probe, then the store is gone (every operation fails from now on), then the next probe at once
						r0 := w.do(vpReq{Target: w.opts.ReadyPath})
						if r0.Status != 200 {
							fail = fmt.Sprintf("the healthy probe answered %d", r0.Status)
							break
						}
						w.redis.fault = func(cmd *vpRedisCmd) *vpStoreFault {
							seen = append(seen, cmd.Op)
							fired = append(fired, cmd.Op+":outage")
							pendingFail[cmd.Op+" "+cmd.Key] = true
							return &vpStoreFault{Kind: "err_before"}
						}
						r = w.do(vpReq{Target: w.opts.ReadyPath})
						disarm()
					case "ready":
						arm()
						r = w.do(vpReq{Target: w.opts.ReadyPath})
						disarm()
					}
					if fail != "" || r == nil {
						env.emit(vpOut{ID: c.ID, Err: fail})
						continue
					}
					obs["status"] = r.Status
					obs["served"] = r.UpHits > 0
					obs["session"] = w.sessionCookieEffect(r)
					obs["panic"] = r.Panic != ""
					obs["opsSeen"] = seen
					obs["fired"] = fired
					obs["recovered"] = len(fired) > 0 && (len(pendingFail) == 0 || firstRecovered)
					// does the operation sequence up to the FIRST fault still follow the scenario's (as the model has it)?  (after a
					// fault the flow legitimately leaves the healthy sequence)
					kmax := 1 << 30
					for _, f := range faults {
						if f.k < kmax {
							kmax = f.k
						}
					}
					model := vpSeq(c.In["ops"])
					for i := 0; i < kmax && i < len(model) && i < len(seen); i++ {
						if seen[i] != model[i] {
							obs["opsDiverged"] = true
						}
					}
					// a cookie that was handed out: does it load a session now that the store is healthy?
					obs["brokenCookie"] = false
					if obs["session"] == "set" {
						j2 := vpNewJar()
						j2.applyAll(r)
						again := w.get(j2, "/private")
						obs["cookieWorks"] = again.UpHits > 0
						obs["brokenCookie"] = again.UpHits == 0
					}
					env.emit(vpOut{ID: c.ID, Obs: obs, Conc: map[string]interface{}{"panic": r.Panic}})
				}
			}()
		}
		wg.Wait()
	})
}
