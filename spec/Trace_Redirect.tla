--------------------------- MODULE Trace_Redirect ---------------------------
(* Judge for C06: redirect targets the real endpoints put on the wire (Location    *)
(* after http.Redirect's path cleaning and escaping), tokenised back, are resolved  *)
(* with the same browser model and must be safe for the whitelist in force.         *)
EXTENDS Redirect, Integers
Emitted == ndJsonDeserialize("trace.ndjson")
VARIABLES i, last
Init2 == i = 1 /\ last = [s |-> <<>>, wl |-> "none", eid |-> 0, own |-> <<>>] /\ c = [s |-> <<>>, wl |-> "none"]
Next2 == i <= Len(Emitted) /\ last' = Emitted[i] /\ i' = i + 1 /\ UNCHANGED c
Spec2 == Init2 /\ [][Next2]_<<i, last, c>>
\* own: the host name the request was made to when that is a name of the alphabet (<<>> otherwise): a target that resolves to that very
\* host is "a path on the host the request was made to", whitelisted or not
OnOwnHost(r, own) == own # <<>> /\ r.kind = "host" /\ r.host = own /\ r.port = ""
Mon_EmittedSafe == last.s = <<>> \/ Safe(BrowserResolve(last.s), last.wl) \/ OnOwnHost(BrowserResolve(last.s), last.own)
TraceAccepted == TLCGet("stats").diameter - 1 = Len(Emitted)
=============================================================================
