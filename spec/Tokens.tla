-------------------------------- MODULE Tokens --------------------------------
(* C04: identity comes only from ID tokens the configured issuer signed for this    *)
(* client.  One oracle (Req_Acceptable, Req_Identity) for the three entry paths -    *)
(* login callback, token refresh, bearer token on a request - which is what catches  *)
(* a clause missing on one path.                                                     *)
EXTENDS Naturals, Sequences, FiniteSets, TLC, Json, CSV

CONSTANTS Tier

Vocab == [ atoms |-> [ none |-> "" ] ]

\* xbearer / xbearer0: a bearer token of an EXTRA issuer (--extra-jwt-issuers), in a configuration that lists two of them: one that
\* publishes no discovery document (xbearer0, key set at <issuer>/.well-known/jwks.json) before one that does (xbearer).  "otherkey"
\* on these paths is the key of the OTHER extra issuer.
Paths   == {"callback", "refresh", "bearer", "xbearer", "xbearer0"}
\* histories: the SAME token presented twice, valid the first time and past its expiry the second (bearer header / the ID token of a
\* session that can only be re-validated because the provider refuses the refresh)
TwicePaths == {"bearer_twice", "validate_twice"}
Keys    == {"discovery", "static", "jwks"}            \* discovery / discovery skipped with PEM key files / with a JWKS URL
Sigs    == {"right", "otherkey", "algnone", "hs256pub"}
Issuers == {"match", "other"}
\* shape of the audience claim (the configured audience claim: aud, or azp when audClaim = "azp")
Auds    == {"client", "other", "list_with", "list_without", "extra", "number", "object", "absent"}
Exps    == {"future", "past"}                          \* "expiring" (valid now, expired a few seconds later) only on TwicePaths
EVs     == {"true", "false", "absent"}                  \* standard email_verified claim in the token
\* where the session's claims live.  tok: all in the token.  email_prof: the token lacks e-mail (profile has it; the profile also
\* carries OTHER groups / username than the token).  groups_prof: the token lacks groups and preferred_username (profile has them).
\* no_groups: neither token nor profile has groups.  ev_split: token says email_verified = false and lacks groups, profile says true.
\* email_prof_unv: the token carries neither e-mail nor email_verified; the profile has the e-mail and says email_verified = false.
Claims  == {"tok", "email_prof", "groups_prof", "no_groups", "ev_split", "email_prof_unv"}

\* claimMap = "custom": the operator configured other claims for e-mail and groups (oidc-email-claim = mail, oidc-groups-claim = roles);
\* every token carries the standard AND the custom claims with different values: the session must take the configured ones
Cfg == [extraAud : BOOLEAN, audClaim : {"aud", "azp"}, allowUnverified : BOOLEAN, keys : Keys, claimMap : {"default", "custom", "unset"}]
\* claimMap = "unset": the provider comes from a structured configuration that leaves the e-mail / groups claim names empty (flag defaults
\* do not apply there).  What such a provider accepts is not the property's business - what it must still REFUSE is.
Tok == [sig : Sigs, iss : Issuers, aud : Auds, exp : Exps, ev : EVs, claims : Claims]
Good == [sig |-> "right", iss |-> "match", aud |-> "client", exp |-> "future", ev |-> "true", claims |-> "tok"]

\* ---- requirement -------------------------------------------------------------------------------
AudOK(t, cfg) == t.aud \in {"client", "list_with"} \/ (t.aud = "extra" /\ cfg.extraAud)
\* the token's own email_verified decides; the profile is consulted only when the token lacks the claim
\* (an e-mail that comes from the profile is verified or not as the profile says)
Verified(t) == IF t.claims \in {"ev_split", "email_prof_unv"} THEN FALSE ELSE t.ev # "false"
Req_Acceptable(t, cfg, path) ==
    /\ t.sig = "right" /\ t.iss = "match" /\ AudOK(t, cfg) /\ t.exp = "future"
    /\ (Verified(t) \/ cfg.allowUnverified)
\* which source each session field must come from ("tok" / "prof" / "none"); the bearer path has no access token and therefore no profile
Src(t, path, field) ==
    LET prof == IF path \in {"bearer", "xbearer", "xbearer0"} THEN "none" ELSE "prof" IN
    CASE field = "email"  -> IF t.claims \in {"email_prof", "email_prof_unv"} THEN prof ELSE "tok"
      [] field = "groups" -> IF t.claims \in {"groups_prof", "ev_split"} THEN prof ELSE IF t.claims = "no_groups" THEN "none" ELSE "tok"
      [] field = "pu"     -> IF t.claims = "groups_prof" THEN prof ELSE "tok"
      [] OTHER            -> "tok"
Req_Identity(t, path) == [user |-> "tok", email |-> Src(t, path, "email"), groups |-> Src(t, path, "groups"), pu |-> Src(t, path, "pu")]
Req_IdentityCustom     == [user |-> "tok", email |-> "custom", groups |-> "custom", pu |-> "tok"]

\* ---- cases ---------------------------------------------------------------------------------------
Differs(t) == Cardinality({f \in DOMAIN Good : t[f] # Good[f]})
InScope(c) ==
    \* the bearer path cannot take the e-mail from a profile: a token without e-mail falls back to the subject there (documented)
    /\ (c.path \in {"bearer", "xbearer", "xbearer0"} => c.tok.claims \notin {"email_prof", "ev_split", "email_prof_unv"})
    /\ (c.tok.claims = "email_prof_unv" => c.tok.ev = "true")       \* (the token's own claim is absent in this variant: the field is unused)
    /\ (c.path \in {"xbearer", "xbearer0"} => /\ ~c.cfg.extraAud /\ c.cfg.audClaim = "aud" /\ ~c.cfg.allowUnverified /\ c.cfg.keys = "discovery"
                                               /\ c.cfg.claimMap = "default" /\ c.tok.claims = "tok" /\ Differs(c.tok) <= 1
                                               /\ c.tok.aud \in {"client", "other", "absent"})
    /\ (c.tok.claims = "ev_split" => c.tok.ev = "false")
    /\ (c.cfg.audClaim = "azp" => ~c.cfg.extraAud)
    /\ (c.cfg.claimMap = "unset" => /\ c.tok.claims = "tok" /\ ~c.cfg.extraAud /\ c.cfg.audClaim = "aud" /\ ~c.cfg.allowUnverified
                                     /\ c.cfg.keys = "discovery" /\ Differs(c.tok) = 1 /\ c.path \in {"callback", "bearer"})      \* (a refresh needs a session, which this provider may never grant)
    /\ (c.cfg.claimMap = "custom" => /\ c.tok.claims = "tok" /\ c.tok.ev = "true" /\ ~c.cfg.extraAud /\ c.cfg.audClaim = "aud" /\ ~c.cfg.allowUnverified
                                      /\ c.cfg.keys = "discovery" /\ Differs(c.tok) <= 1)
    /\ (c.cfg.keys = "jwks" => ~c.cfg.extraAud /\ c.cfg.audClaim = "aud" /\ ~c.cfg.allowUnverified /\ Differs(c.tok) <= 1 /\ c.tok.claims = "tok")
    /\ (Tier = "quick" => /\ Differs(c.tok) <= 1
                          /\ (c.cfg.extraAud \/ c.cfg.audClaim = "azp" => c.tok.aud # "client" \/ c.tok = Good)
                          /\ (c.cfg.allowUnverified => c.tok.ev # "true" \/ c.tok.claims = "ev_split"))
    /\ (Tier = "thorough" => Differs(c.tok) <= 2 /\ (c.cfg.keys = "static" => Differs(c.tok) <= 1))

VARIABLE c
Init == \/ \E cfg \in Cfg, t \in Tok, p \in Paths : c = [cfg |-> cfg, tok |-> t, path |-> p] /\ InScope(c)
        \/ \E cfg \in Cfg, p \in TwicePaths : /\ c = [cfg |-> cfg, tok |-> [Good EXCEPT !.exp = "expiring"], path |-> p]
                                              /\ ~cfg.extraAud /\ cfg.audClaim = "aud" /\ ~cfg.allowUnverified /\ cfg.claimMap = "default" /\ cfg.keys # "jwks"
Next == UNCHANGED c

\* acceptability is evaluated at each presentation: what was acceptable once is not acceptable for ever
CaseRec == [fam |-> "tokens", in |-> c,
            req |-> IF c.path \in TwicePaths THEN [accepted |-> TRUE, acceptedAfterExpiry |-> FALSE, panic |-> FALSE]
                    ELSE IF c.cfg.claimMap = "unset" /\ Req_Acceptable(c.tok, c.cfg, c.path) THEN [panic |-> FALSE]
                    \* (such a provider does not read the e-mail claim - the session's e-mail is the subject - so an unverified address is
                    \* harmless as long as it is not what the session carries)
                    ELSE IF c.cfg.claimMap = "unset" /\ Req_Acceptable([c.tok EXCEPT !.ev = "true"], c.cfg, c.path) THEN [unverifiedEmailUsed |-> FALSE, panic |-> FALSE]
                    ELSE IF Req_Acceptable(c.tok, c.cfg, c.path)
                    THEN [accepted |-> TRUE, identity |-> IF c.cfg.claimMap = "custom" THEN Req_IdentityCustom ELSE Req_Identity(c.tok, c.path), panic |-> FALSE]
                    \* foreignIdentity (refresh path): the rejected refreshed token names another identity; the request may still be served
                    \* from the re-validated OLD session, but never with anything taken from the token that was not accepted
                    ELSE [accepted |-> FALSE, panic |-> FALSE] @@ (IF c.path = "refresh" THEN [foreignIdentity |-> FALSE] ELSE <<>>)]
EmitVocab == JsonSerialize("vocab.json", Vocab)
EmitCase  == CSVWrite("%1$s", <<ToJson(CaseRec)>>, "cases.ndjson")
=============================================================================
