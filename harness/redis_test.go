//go:build verif

package main

// miniredis pre-hook: command log with executed order, scheduler gate and fault injector.

import (
	"time"
	"bufio"
	"bytes"
	"runtime"
	"strconv"
	"strings"
	"sync"

	"github.com/alicebob/miniredis/v2"
	"github.com/alicebob/miniredis/v2/server"
)

type vpRedisCmd struct {
	Seq    int      `json:"seq"`
	Cmd    string   `json:"cmd"`
	Args   []string `json:"-"`
	Key    string   `json:"key"`
	Op     string   `json:"op"` // abstract operation: get set del lock_obtain lock_release ping other
	Nested bool     `json:"nested"`
	Fault  string   `json:"fault,omitempty"`
}

type vpStoreFault struct {
	Kind string // err_before | err_after | corrupt | truncate | missing
}

type vpRedisHook struct {
	mr  *miniredis.Miniredis
	mu  sync.Mutex // serialises execution so that logged order == executed order
	own int64      // goroutine currently executing under mu (0 none)

	lmu sync.Mutex
	log []vpRedisCmd
	seq int

	// optional behaviours (set by drivers before traffic starts)
	gate  func(c *vpRedisCmd)               // called before execution, outside mu; may block
	fault func(c *vpRedisCmd) *vpStoreFault // decide a fault for this (top-level) command
	scripts map[string]string // sha -> kind (obtain/release), learnt from EVAL/SCRIPT LOAD
	observer func(c *vpRedisCmd, reply []byte) // called under mu right after a top-level command executed (executed order)
}

func vpGoID() int64 {
	var buf [64]byte
	n := runtime.Stack(buf[:], false)
	// "goroutine 123 [running]:"
	f := strings.Fields(string(buf[:n]))
	if len(f) < 2 {
		return -1
	}
	id, _ := strconv.ParseInt(f[1], 10, 64)
	return id
}

func vpInstallRedisHook(mr *miniredis.Miniredis) *vpRedisHook {
	h := &vpRedisHook{mr: mr, scripts: map[string]string{}}
	mr.Server().SetPreHook(h.hook)
	return h
}

func vpClassifyRedis(cmd string, args []string) (op, key string) {
	switch cmd {
	case "GET":
		if len(args) > 0 {
			key = args[0]
		}
		return "get", key
	case "SET":
		if len(args) > 0 {
			key = args[0]
		}
		return "set", key
	case "DEL":
		if len(args) > 0 {
			key = args[0]
		}
		return "del", key
	case "PING":
		return "ping", ""
	case "EVALSHA", "EVAL":
		// redislock: obtain has ARGV (token, tokenlen, ttl); release has (token)
		if len(args) >= 3 {
			key = args[2]
		}
		n := len(args) - 2 // script, numkeys
		if n >= 1 {
			nk, _ := strconv.Atoi(args[1])
			argv := len(args) - 2 - nk
			switch argv {
			case 3:
				return "lock_obtain", key
			case 1:
				return "lock_release", key
			case 2:
				return "lock_refresh", key
			}
		}
		return "eval", key
	case "EXISTS":
		if len(args) > 0 {
			key = args[0]
		}
		return "exists", key
	}
	return "other", key
}

func (h *vpRedisHook) record(c vpRedisCmd) *vpRedisCmd {
	h.lmu.Lock()
	h.seq++
	c.Seq = h.seq
	h.log = append(h.log, c)
	r := &h.log[len(h.log)-1]
	cp := *r
	h.lmu.Unlock()
	return &cp
}

func (h *vpRedisHook) setFault(seq int, f string) {
	h.lmu.Lock()
	for i := range h.log {
		if h.log[i].Seq == seq {
			h.log[i].Fault = f
		}
	}
	h.lmu.Unlock()
}

func (h *vpRedisHook) snapshot() []vpRedisCmd {
	h.lmu.Lock()
	defer h.lmu.Unlock()
	return append([]vpRedisCmd(nil), h.log...)
}

// ops returns the abstract operations (top-level, excluding connection chatter) since index from.
func (h *vpRedisHook) ops(from int) []vpRedisCmd {
	var out []vpRedisCmd
	for _, c := range h.snapshot() {
		if c.Seq <= from || c.Nested || c.Op == "other" {
			continue
		}
		out = append(out, c)
	}
	return out
}

func (h *vpRedisHook) mark() int {
	h.lmu.Lock()
	defer h.lmu.Unlock()
	return h.seq
}

func (h *vpRedisHook) hook(peer *server.Peer, cmd string, args ...string) bool {
	gid := vpGoID()
	h.lmu.Lock()
	nested := h.own == gid && gid != 0
	h.lmu.Unlock()
	if nested {
		// re-entrant call: either our own Dispatch below or a command issued by a Lua script
		op, key := vpClassifyRedis(cmd, args)
		_ = op
		h.record(vpRedisCmd{Cmd: cmd, Args: args, Key: key, Op: "nested:" + strings.ToLower(cmd), Nested: true})
		return false
	}
	op, key := vpClassifyRedis(cmd, args)
	if op == "other" {
		return false // HELLO, CLIENT SETINFO, ... pass through ungated
	}
	ev := vpRedisCmd{Cmd: cmd, Args: args, Key: key, Op: op}
	if g := h.gate; g != nil {
		g(&ev)
	}
	h.mu.Lock()
	defer h.mu.Unlock()
	rec := h.record(ev)
	var f *vpStoreFault
	if h.fault != nil {
		f = h.fault(rec)
	}
	h.lmu.Lock()
	h.own = gid
	h.lmu.Unlock()
	defer func() {
		h.lmu.Lock()
		h.own = 0
		h.lmu.Unlock()
	}()
	full := append([]string{cmd}, args...)
	if f == nil {
		if h.observer != nil {
			raw := h.execDummy(peer, full)
			peer.WriteRaw(string(raw))
			h.observer(rec, raw)
			return true
		}
		h.mr.Server().Dispatch(peer, full)
		return true
	}
	h.setFault(rec.Seq, f.Kind)
	switch f.Kind {
	case "err_before":
		peer.WriteError("ERR vp injected failure (before effect)")
	case "slow_err":
		// a time-out: no answer for 2.5 s, then a failure without effect
		time.Sleep(2500 * time.Millisecond)
		peer.WriteError("ERR vp injected failure (slow, before effect)")
	case "err_after":
		h.execDummy(peer, full)
		peer.WriteError("ERR vp injected failure (after effect, reply lost)")
	case "missing":
		if op == "get" {
			peer.WriteNull()
		} else {
			h.mr.Server().Dispatch(peer, full)
		}
	case "corrupt", "truncate", "short":
		if op != "get" {
			h.mr.Server().Dispatch(peer, full)
			break
		}
		val, ok := h.execDummyBulk(peer, full)
		if !ok {
			peer.WriteNull()
			break
		}
		b := []byte(val)
		switch f.Kind {
		case "corrupt":
			if len(b) > 0 {
				b[len(b)/2] ^= 0x5a
				b[len(b)-1] ^= 0x01
			}
		case "truncate":
			b = b[:len(b)/2]
		case "short":
			if len(b) > 5 {
				b = b[:5]
			}
		}
		peer.WriteBulk(string(b))
	default:
		h.mr.Server().Dispatch(peer, full)
	}
	return true
}

func (h *vpRedisHook) execDummy(peer *server.Peer, full []string) []byte {
	buf := &bytes.Buffer{}
	wr := bufio.NewWriter(buf)
	d := server.NewPeer(wr)
	d.Ctx = peer.Ctx
	h.mr.Server().Dispatch(d, full)
	wr.Flush()
	if peer.Ctx == nil {
		peer.Ctx = d.Ctx
	}
	return buf.Bytes()
}

func (h *vpRedisHook) execDummyBulk(peer *server.Peer, full []string) (string, bool) {
	raw := h.execDummy(peer, full)
	// $<len>\r\n<data>\r\n  or $-1\r\n / _\r\n
	if len(raw) == 0 || raw[0] != '$' {
		return "", false
	}
	i := bytes.Index(raw, []byte("\r\n"))
	if i < 0 {
		return "", false
	}
	n, err := strconv.Atoi(string(raw[1:i]))
	if err != nil || n < 0 {
		return "", false
	}
	data := raw[i+2:]
	if len(data) < n {
		return "", false
	}
	return string(data[:n]), true
}
