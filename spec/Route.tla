-------------------------------- MODULE Route --------------------------------
(* C17: authenticated traffic is proxied faithfully to the right upstream.        *)
(* Paths are token sequences (comma-free concretisation).  Req_Route: rewrite      *)
(* rules first (longest pattern), then the longest configured prefix; a path        *)
(* without trailing slash is an exact match.  With proxy-raw-path off routing sees   *)
(* the decoded path (%2F is a slash), with it on the raw one.                        *)
EXTENDS Naturals, Sequences, FiniteSets, TLC, Json, CSV, Str

CONSTANTS MaxPath, Tier

Vocab == [ atoms |-> [ sl |-> "/", a |-> "a", b |-> "b", app |-> "app", x |-> "x", files |-> "files", t |-> "a.txt",
                       p2F |-> "%2F", p2E |-> "%2E", p20 |-> "%20", plus |-> "+", semi |-> ";", utf |-> "%C3%A9", v1 |-> "v1", v2 |-> "v2",
                       dots2 |-> "v1..2", dots3 |-> "...",
                       o2x |-> "oauth2-docs", o2h |-> "oauth2.html", o2u |-> "oauth2_proxy" ] ]    \* names that merely START like the proxy prefix       \* segments that merely CONTAIN adjacent dots (no dot segments: the paths stay normalised)

Seg == {"a", "b", "app", "x", "p2F", "p2E", "p20", "plus", "semi", "utf"}
Tok == Seg \cup {"sl"}
ValidPath(p) == /\ Len(p) >= 1 /\ p[1] = "sl"
                /\ \A i \in 1..(Len(p) - 1) : ~(p[i] = "sl" /\ p[i+1] = "sl")
                /\ \A i \in 1..Len(p) : p[i] = "p2E" => (i > 1 /\ p[i-1] \notin {"sl", "p2F", "p2E"})     \* never a (decoded) dot segment
                /\ \A i \in 1..(Len(p) - 1) : ~(p[i] = "p2F" /\ p[i+1] \in {"sl", "p2F"}) /\ ~(p[i] = "sl" /\ p[i+1] = "p2F")   \* no empty decoded segment
                /\ p[Len(p)] # "p2F"
\* a few longer paths that put escapes inside the part a rewrite rule captures / below a nested prefix
ExtraPaths == { <<"sl", "app", "sl", "a", "p2F", "b">>, <<"sl", "app", "sl", "x", "sl", "a", "p20", "b">>, <<"sl", "app", "sl", "utf", "semi", "plus">>,
                <<"sl", "a", "sl", "b", "sl", "x", "p2F", "a">>, <<"sl", "a", "p2F", "b", "sl", "x">>, <<"sl", "app", "sl", "a", "p2E", "b">>,
                <<"sl", "app", "sl", "dots2">>, <<"sl", "a", "sl", "dots3">>, <<"sl", "dots2">>, <<"sl", "a", "sl", "b", "sl", "dots2", "sl", "x">>,
                <<"sl", "o2x", "sl", "a">>, <<"sl", "o2h">>, <<"sl", "o2u", "sl", "x">>, <<"sl", "o2x">> }
Paths == {p \in SeqsUpTo(Tok, 1, MaxPath) : ValidPath(p)} \cup ExtraPaths

Decoded(p) == [i \in 1..Len(p) |-> IF p[i] = "p2F" THEN "sl" ELSE p[i]]

\* upstream sets: [id, path (tokens), kind: "http" | "static", rw: rewrite target tokens or <<>>, pat: pattern prefix tokens for rewrite rules]
Up(id, path, kind) == [id |-> id, path |-> path, kind |-> kind, rw |-> <<>>]
RW(id, prefix, target) == [id |-> id, path |-> prefix, kind |-> "http", rw |-> target]   \* rule ^<prefix>(.*)$ -> <target>$1
Sets == [ root    |-> {Up("root", <<"sl">>, "http")},
          nested  |-> {Up("root", <<"sl">>, "http"), Up("A", <<"sl", "a", "sl">>, "http"), Up("AB", <<"sl", "a", "sl", "b", "sl">>, "http")},
          sibling |-> {Up("A", <<"sl", "a", "sl">>, "http"), Up("B", <<"sl", "b", "sl">>, "http")},
          exact   |-> {Up("root", <<"sl">>, "http"), Up("Aexact", <<"sl", "a">>, "http")},
          rewrite |-> {Up("root", <<"sl">>, "http"), RW("RW1", <<"sl", "app", "sl">>, <<"sl", "v1", "sl">>),
                       RW("RW2", <<"sl", "app", "sl", "x", "sl">>, <<"sl", "v2", "sl">>)},
          static  |-> {Up("S", <<"sl">>, "static"), Up("A", <<"sl", "a", "sl">>, "http")} ]
SetNames == DOMAIN Sets

\* ---- requirement -------------------------------------------------------------------------------
View(p, raw) == IF raw THEN p ELSE Decoded(p)
Matches(u, p, raw) ==
    LET v == View(p, raw) IN
    IF u.rw # <<>> THEN StartsWith(Decoded(p), u.path)                      \* rewrite patterns are matched on the decoded path
    ELSE IF u.path[Len(u.path)] = "sl" THEN StartsWith(v, u.path) ELSE v = u.path
Rank(u) == (IF u.rw # <<>> THEN 100 ELSE 0) + Len(u.path)
Req_Route(set, p, raw) ==
    LET M == {u \in set : Matches(u, p, raw)} IN
    IF M = {} THEN "none" ELSE (CHOOSE u \in M : \A w \in M : Rank(w) <= Rank(u)).id
\* the path the upstream must receive
Req_Path(set, p, raw) ==
    LET M == {u \in set : Matches(u, p, raw)}
        u == CHOOSE w \in M : \A z \in M : Rank(z) <= Rank(w)
    IN IF u.rw = <<>> THEN p ELSE u.rw \o Drop(p, Len(u.path))

\* a request without trailing slash for which only "<path>/" matches is redirected to "<path>/" (documented)
SlashRedirect(set, p, raw) == Req_Route(set, p, raw) = "none" /\ p[Len(p)] # "sl" /\ Req_Route(set, Append(p, "sl"), raw) # "none"

\* encodings survive a rewrite only if the rule operates on the raw path; the code decodes first, so escapes inside the captured part are
\* re-encoded canonically: %2F would become a slash.  Such cells are reported as a known finding candidate, see DESIGN
HasEscapedSlash(p) == \E i \in 1..Len(p) : p[i] = "p2F"

VARIABLE c
\* semi: parameters separated by ';' (legal in a query; what the upstream makes of it is the upstream's business) - the same bytes must arrive,
\* with and without --allow-query-semicolons (which only concerns the proxy's OWN parsing)
Queries == {"none", "simple", "canon2", "unsorted", "encoded", "semi"}
Init == \E sn \in SetNames, p \in Paths, raw \in BOOLEAN, ph \in BOOLEAN, m \in {"GET", "POST", "PUT", "DELETE"}, q \in Queries, bd \in {"none", "small", "big", "chunked_small", "chunked_big"} :        \* chunked: Transfer-Encoding: chunked, no Content-Length (100 B / 200 KiB)
          /\ c = [set |-> sn, path |-> p, rawPath |-> raw, passHost |-> ph, method |-> m, query |-> q, body |-> bd]
          /\ (bd # "none" => m \in {"POST", "PUT"}) /\ (m \in {"POST", "PUT"} => bd # "none")
          /\ (bd \in {"big", "chunked_big", "chunked_small"} => Len(p) <= 2 /\ q = "none")
          /\ (Tier = "quick" => (m \in {"GET", "POST"} /\ (q \in {"none", "unsorted"} \/ Len(p) <= 2) /\ (q = "semi" => Len(p) <= 1) /\ (ph \/ Len(p) <= 3) /\ (m = "GET" \/ Len(p) <= 3)))
Next == UNCHANGED c

Route(d) == Req_Route(Sets[d.set], d.path, d.rawPath)
IsRW(d) == \E u \in Sets[d.set] : u.id = Route(d) /\ u.rw # <<>>
IsStatic(d) == \E u \in Sets[d.set] : u.id = Route(d) /\ u.kind = "static"

\* an escape whose decoding changes the path text (%2F, %2E) inside a request that a rewrite rule handles
EscUnderRewrite(d) == IsRW(d) /\ \E i \in 1..Len(d.path) : d.path[i] \in {"p2F", "p2E"}
CaseRec == [fam |-> "route", in |-> c @@ [escUnderRewrite |-> EscUnderRewrite(c)],
            req |-> IF Route(c) = "none"
                    THEN [upstream |-> "none"]        \* how an unroutable request is answered (404, or 301 to "<path>/") is conformance only
                    ELSE IF IsStatic(c) THEN [upstream |-> "static", status |-> 202]
                    ELSE [upstream |-> Route(c), method |-> c.method, path |-> Req_Path(Sets[c.set], c.path, c.rawPath),
                          bodyIntact |-> TRUE, headersIntact |-> TRUE, hostOK |-> TRUE, relayOK |-> TRUE]
                         @@ (IF IsRW(c) /\ c.query \in {"unsorted", "encoded", "semi"} THEN <<>> ELSE [queryIntact |-> TRUE]),
            impl |-> IF Route(c) = "none" THEN [status |-> IF SlashRedirect(Sets[c.set], c.path, c.rawPath) THEN 301 ELSE 404] ELSE [panic |-> FALSE],
            rw |-> IsRW(c), escSlash |-> HasEscapedSlash(c.path)]
EmitVocab == JsonSerialize("vocab.json", Vocab)
EmitCase  == CSVWrite("%1$s", <<ToJson(CaseRec)>>, "cases.ndjson")
=============================================================================
