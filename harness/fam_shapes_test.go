//go:build verif

package main

import (
	"encoding/base64"
	"fmt"
	mrand "math/rand"
	"net/url"
	"strings"
	"testing"
)

func vpRandBytes(rng *mrand.Rand, n int, alphabet string) string {
	b := make([]byte, n)
	for i := range b {
		b[i] = alphabet[rng.Intn(len(alphabet))]
	}
	return string(b)
}

const vpCookieSafe = "ABCDEFGHIJKLMNOPQRSTUVWXYZabcdefghijklmnopqrstuvwxyz0123456789-_=|.%+/:!#$&'()*<>?@[]^`{}~"

// shapes: C19 - grammar of request shapes x configuration sweep, no panic
func init() {
	vpRegister("shapes", func(t *testing.T, env *vpEnv) {
		keys, groups := vpGroup(env.cases, func(c *vpCase) string { return vpJSON(c.In["cfg"]) })
		vpRunGroups(keys, groups, env.seed, func(rng *mrand.Rand, key string, cs []*vpCase) {
			cm := vpM(cs[0].In, "cfg")
			cfg := &vpCfg{Store: vpS(cm, "store"), CSRFPerRequest: vpB(cm, "perReq"), EncodeState: vpB(cm, "encode"), Bearer: true, ExtraIssuer: true,
				Htpasswd: true, HtpasswdGroups: []string{"hg"}, TrustedIPs: []string{"198.51.100.0/24"}, Refresh: 3600}
			if rp := vpS(cm, "rp"); rp != "off" {
				cfg.ReverseProxy = true
				cfg.RealIPHeader = rp
			}
			if cl := vpS(cm, "claim"); cl != "none" {
				cfg.Structured = true
				hs := []vpHeaderCfg{{Name: "X-Vp-Claim", Claim: cl}, {Name: "X-Vp-Prefixed", Claim: cl, Prefix: "P "}, {Name: "X-Vp-Basic", Claim: cl, BasicPw: "pw"}}
				if vpS(cm, "where") == "request" {
					cfg.ReqHdrs = hs
				} else {
					cfg.RespHdrs = hs
				}
			}
			w, err := vpNewWorld(cfg)
			if err != nil {
				for _, c := range cs {
					env.emit(vpOut{ID: c.ID, Err: "world: " + err.Error()})
				}
				return
			}
			defer w.close()
			sess := vpNewJar()
			w.login(sess, "alice", "")
			formJar := vpNewJar()
			{
				form := url.Values{"username": {"hpuser"}, "password": {"hppass"}}
				formJar.applyAll(w.do(vpReq{Method: "POST", Target: w.prefix() + "/sign_in", Body: form.Encode(), Form: true}))
			}
			reps := 3
			for _, c := range cs {
				in := c.In
				panics, answered := 0, 0
				var firstPanic, firstReq string
				for k := 0; k < reps; k++ {
					req := vpReq{Method: "GET"}
					var cookie string
					var hdr [][2]string
					switch vpS(in, "source") {
					case "cookie":
						cookie = sess.header()
					case "form":
						cookie = formJar.header()
					case "bearer":
						hdr = append(hdr, [2]string{"Authorization", "Bearer " + w.idp.mintIDToken("alice", nil, "")})
					case "xbearer":
						hdr = append(hdr, [2]string{"Authorization", "Bearer " + w.xidp.mintIDToken("alice", func(cl map[string]interface{}) {
							if k == 1 {
								delete(cl, "email")
							}
							if k == 2 {
								delete(cl, "exp")
							}
						}, "")})
					case "basic":
						hdr = append(hdr, [2]string{"Authorization", "Basic " + base64.StdEncoding.EncodeToString([]byte("hpuser:hppass"))})
					case "none_bypass":
						req.RemoteAddr = "198.51.100.9:1000"
					}
					// cookie shapes
					name := w.name
					switch vpS(in, "cookie") {
					case "garbage":
						cookie = name + "=" + vpRandBytes(rng, 1+rng.Intn(200), vpCookieSafe)
					case "short":
						cookie = name + "=" + vpRandBytes(rng, rng.Intn(4), "A|=") + "; " + name + "_csrf=" + vpRandBytes(rng, rng.Intn(3), "|a")
					case "overlong":
						cookie = name + "=" + vpRandBytes(rng, 5000+rng.Intn(4000), "Aa0|=")
					case "stray_parts":
						cookie = name + "_1=" + vpRandBytes(rng, 30, "Aa0") + "; " + name + "_0=|" + "; " + name + "_7=x"
						if cookie != "" && k == 1 && sess.get(name) != nil {
							cookie = name + "_0=" + sess.get(name).Value[:20] + "; " + name + "_1=" + sess.get(name).Value[20:]
						}
					case "empty_value":
						cookie = name + "=; " + name + "_csrf="
					case "dup":
						if cookie != "" {
							cookie = cookie + "; " + cookie
						} else {
							cookie = name + "=a|1|b; " + name + "=c|2|d"
						}
					case "nul_bytes":
						cookie = name + "=" + strings.Repeat("%00", 3) + "|" + "1|" + vpRandBytes(rng, 10, "\x01\x7f ab")
					}
					switch vpS(in, "auth") {
					case "bearer_junk":
						hdr = [][2]string{{"Authorization", "Bearer " + vpRandBytes(rng, rng.Intn(60), vpCookieSafe)}}
					case "bearer_jwtlike":
						hdr = [][2]string{{"Authorization", "Bearer ey" + vpRandBytes(rng, rng.Intn(30), "abcXYZ019_-") + ".ey" + vpRandBytes(rng, rng.Intn(30), "abcXYZ019_-") + "." + vpRandBytes(rng, 1+rng.Intn(30), "abcXYZ019_-")}}
					case "basic_badb64":
						hdr = [][2]string{{"Authorization", "Basic " + vpRandBytes(rng, 1+rng.Intn(20), "!*&^%$#@")}}
					case "basic_nocolon":
						hdr = [][2]string{{"Authorization", "Basic " + base64.StdEncoding.EncodeToString([]byte(vpRandBytes(rng, rng.Intn(12), "abcdef")))}}
					case "three_fields":
						hdr = [][2]string{{"Authorization", "Bearer a b"}}
					case "empty":
						hdr = [][2]string{{"Authorization", ""}}
					case "only_scheme":
						hdr = [][2]string{{"Authorization", []string{"Bearer", "Basic", "Bearer ", "basic x"}[rng.Intn(4)]}}
					}
					// forwarding header shapes on the configured client-IP header
					if fw := vpS(in, "fwd"); fw != "none" {
						h := cfg.RealIPHeader
						v := map[string]string{"comma": []string{",", ", 10.0.0.1", " ,10.1.2.3"}[k%3], "empty": " ", "bracket": []string{"[::1", "[]", "[::1]:x"}[k%3],
							"unknown": "unknown", "hostport_bad": []string{"1.2.3.4:99999", ":80", "1.2.3.4:"}[k%3],
							"many": "1.1.1.1, 2.2.2.2,3.3.3.3,,", "v6zone": []string{"fe80::1%eth0", "::ffff:1.2.3.4", "[fe80::1%25eth0]:80"}[k%3]}[fw]
						hdr = append(hdr, [2]string{h, v}, [2]string{"X-Forwarded-Host", []string{"a b", "evil.com:99999", ""}[k%3]}, [2]string{"X-Forwarded-Uri", []string{"%zz", "//x", "?"}[k%3]})
					}
					target := "/private/x"
					switch vpS(in, "endpoint") {
					case "authonly":
						target = w.prefix() + "/auth"
					case "authonly_q":
						target = w.prefix() + "/auth"
					case "userinfo":
						target = w.prefix() + "/userinfo"
					case "start":
						target = w.prefix() + "/start?rd=" + url.QueryEscape([]string{"/x", "//evil", "\\/x", "https://x"}[rng.Intn(4)])
					case "sign_in_get":
						target = w.prefix() + "/sign_in"
					case "sign_in_post":
						target = w.prefix() + "/sign_in"
						req.Method = "POST"
						req.Form = true
						req.Body = []string{"username=hpuser&password=hppass", "username=&password=", "username=%zz", vpRandBytes(rng, 40, "a=&%;+")}[rng.Intn(4)]
					case "sign_out":
						target = w.prefix() + "/sign_out"
					case "static":
						target = w.prefix() + "/static/" + vpRandBytes(rng, rng.Intn(12), "abc/.%")
					case "ready":
						target = "/ready"
					case "odd_target":
						target = []string{"*", "/%zz", "//x//y", "/a?%zz", "/.//../x", "http://other/abs", "/" + strings.Repeat("a", 5000)}[rng.Intn(7)]
						if target == "*" {
							req.Method = "OPTIONS"
						}
					case "callback":
						state := "abcdefgh12345:/x"
						if cfg.EncodeState {
							state = base64.RawURLEncoding.EncodeToString([]byte(state))
						}
						switch vpS(in, "state") {
						case "absent":
							state = ""
						case "short":
							state = vpRandBytes(rng, rng.Intn(8), "abc:")
						case "nocolon":
							state = vpRandBytes(rng, 12, "abcdef")
						case "badb64":
							state = vpRandBytes(rng, 1+rng.Intn(20), "!*:%$#")
						case "long":
							state = vpRandBytes(rng, 3000, "ab:") + ":" + vpRandBytes(rng, 3000, "/a")
						case "percent":
							state = "%zz%00:" + "%"
						case "blanks":
							// 8 to 10 bytes before the colon, most of them white space on either side of a few letters
							ws := []string{" ", "\t", "\n", "\r", "\u00a0"}
							n := 8 + rng.Intn(3)
							k := rng.Intn(4)
							lead := rng.Intn(n - k + 1)
							state = ""
							for i := 0; i < lead; i++ {
								state += ws[rng.Intn(3)]
							}
							state += vpRandBytes(rng, k, "abc")
							for len(state) < n {
								state += ws[rng.Intn(len(ws))]
							}
							state += ":/"
						}
						q := url.Values{"code": {[]string{"x", "", vpRandBytes(rng, 20, "ab%")}[rng.Intn(3)]}}
						target = w.prefix() + "/callback?" + q.Encode() + "&state=" + url.QueryEscape(state)
						if vpS(in, "state") == "percent" {
							target = w.prefix() + "/callback?code=x&state=" + state
						}
						if vpS(in, "state") == "absent" {
							target = w.prefix() + "/callback?" + q.Encode()
						}
					}
					switch vpS(in, "query") {
					case "domains_only":
						target += "?allowed_email_domains=" + []string{"example.com", "*.example.com,", ",", "a:b"}[rng.Intn(4)]
					case "emails_only":
						target += "?allowed_emails=" + []string{"alice@example.com", "@", ",,", "a@b@c"}[rng.Intn(4)]
					case "groups_only":
						target += "?allowed_groups=" + []string{"g1", ",", "g1,g2,", "%00"}[rng.Intn(4)]
					case "all_three":
						target += "?allowed_groups=g1&allowed_emails=alice@example.com&allowed_email_domains=example.com"
					case "empty_items":
						target += "?allowed_groups=&allowed_emails=&allowed_email_domains="
					case "semicolons":
						target += "?a=1;b=2;allowed_groups=g1"
					case "bad_escape":
						target += "?allowed_email_domains=%zz&rd=%"
					}
					req.Target, req.Cookie, req.Header = target, cookie, hdr
					r := w.do(req)
					if r.Panic != "" {
						panics++
						if firstPanic == "" {
							firstPanic = r.Panic
							firstReq = fmt.Sprintf("%s %.200s cookie=%.80q hdr=%.200q", req.Method, target, cookie, fmt.Sprint(hdr))
						}
					}
					if r.Status > 0 || r.Status == -1 {
						answered++
					}
				}
				env.emit(vpOut{ID: c.ID, Obs: map[string]interface{}{"panic": panics > 0, "answered": answered == reps, "executions": reps},
					Conc: map[string]interface{}{"first_panic": firstPanic, "request": firstReq}})
			}
		})
	})
}
