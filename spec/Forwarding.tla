------------------------------ MODULE Forwarding ------------------------------
(* C16: forwarding headers are ignored unless reverse-proxy mode is on.           *)
(* The effective request values (pkg/requests/util, pkg/ip) as functions of the    *)
(* configuration and the request; the property is relational: with reverse-proxy   *)
(* off the observable projection of a request does not depend on the forwarding    *)
(* headers; with it on, client-IP headers other than the configured one do not      *)
(* take part in the trusted-IP decision.                                            *)
EXTENDS Naturals, Sequences, FiniteSets, TLC, Json, CSV

CONSTANTS MaxHeaders       \* how many forwarding headers a request carries at most

Vocab == [ atoms |-> [ none |-> "" ] ]

\* "Others": a bundle of further forwarding-style headers sent together (X-Forwarded-Method, -Port, -Prefix, -Server, -Scheme, -Ssl,
\* X-Original-URL, X-Rewrite-URL, Forwarded) - nothing in the proxy should ever depend on them, in either mode
FwdHeaders == {"X-Forwarded-Host", "X-Forwarded-Proto", "X-Forwarded-Uri", "Others"}
IPHeaders  == {"X-Forwarded-For", "X-Real-IP", "X-ProxyUser-IP", "X-Envoy-External-Address", "CF-Connecting-IP"}
Headers    == FwdHeaders \cup IPHeaders
\* two values per header: one that would matter if honoured in the "good" direction, one in the "bad" direction
Values(h) == CASE h = "X-Forwarded-Host"  -> {"whitelisted", "foreign"}
               [] h = "X-Forwarded-Proto" -> {"https", "http"}
               [] h = "X-Forwarded-Uri"   -> {"skipauth", "proxyprefixed"}
               [] h = "Others"            -> {"benign", "hostile"}
               [] OTHER                   -> {"trusted", "untrusted"}

Endpoints == {"protected", "authonly", "start", "sign_in", "sign_out", "callback"}
Creds     == {"none", "session"}
\* configuration variants (all have trusted IPs, a skip-auth route, a whitelist domain and cookie domains)
Cfgs == {"plain", "spb", "forcehttps", "insecure_cookie", "redirecturl"}      \* redirecturl: an explicit --redirect-url is configured

\* ---- effective values (transcription of GetRequestHost / Proto / URI and GetClientIP) ------------
Has(req, h) == h \in DOMAIN req.hdr
EffHost(rp, req)  == IF rp /\ Has(req, "X-Forwarded-Host") THEN req.hdr["X-Forwarded-Host"] ELSE "host"
EffProto(rp, req) == IF rp /\ Has(req, "X-Forwarded-Proto") THEN req.hdr["X-Forwarded-Proto"] ELSE "scheme"
EffURI(rp, req)   == IF rp /\ Has(req, "X-Forwarded-Uri") THEN req.hdr["X-Forwarded-Uri"] ELSE "target"
\* the client address: the configured header in reverse-proxy mode (nothing if it is absent), the peer address otherwise
EffClient(rp, ipHeader, req) == IF rp THEN (IF Has(req, ipHeader) THEN req.hdr[ipHeader] ELSE "nothing") ELSE "peer"
Eff(rp, ipHeader, req) == <<EffHost(rp, req), EffProto(rp, req), EffURI(rp, req), EffClient(rp, ipHeader, req)>>

\* all header sets of at most MaxHeaders headers
HdrSets == {S \in SUBSET Headers : Cardinality(S) <= MaxHeaders /\ Cardinality(S) >= 1}

VARIABLE c
\* mode "off": reverse-proxy off, any forwarding headers.  mode "on_other_ip": reverse-proxy on with configured client-IP header
\* ipHeader; the request carries OTHER client-IP headers only (claiming a trusted / untrusted address)
\* host: the request's own Host lies under a configured cookie domain ("on") or under none of them ("off": the proxy addressed by
\* IP or an internal name - the case in which a cookie-domain choice has the most freedom)
Init == \E ep \in Endpoints, cr \in Creds, cf \in Cfgs, S \in HdrSets, mode \in {"off", "on_other_ip"}, iph \in IPHeaders, host \in {"on", "off"}, conn \in {"plain", "tls"}, peer \in {"tcp", "unix"}, form \in {"origin", "absolute"} :
          \E hv \in [S -> {"a", "b"}] :
            \* form = "absolute": the request line carries the absolute form of the target (GET http://host/path HTTP/1.1, legal towards any server)
            /\ (form = "absolute" => mode = "off" /\ host = "on" /\ conn = "plain" /\ peer = "tcp" /\ iph = "X-Real-IP" /\ cf \in {"plain", "spb"})
            /\ (host = "off" => mode = "off" /\ cf = "plain")
            \* peer = "unix": the request arrives on a unix-socket listener (the peer address is "@", no IP at all)
            /\ (peer = "unix" => mode = "off" /\ cf = "plain" /\ host = "on" /\ conn = "plain" /\ ep \in {"protected", "authonly"} /\ S \subseteq IPHeaders /\ iph = "X-Real-IP")
            \* conn = "tls": the request reaches the proxy over TLS (what force-https exempts from its redirect)
            /\ (conn = "tls" => mode = "off" /\ host = "on" /\ cf \in {"forcehttps", "plain"})
            \* (with reverse-proxy off a configured real-client-IP header is just as inert as the default one)
            /\ (mode = "off" /\ iph # "X-Real-IP" => cf = "plain" /\ host = "on" /\ conn = "plain" /\ ep \in {"protected", "authonly"} /\ S \subseteq IPHeaders)
            /\ (mode = "on_other_ip" => S \subseteq (IPHeaders \ {iph}) /\ cf = "plain" /\ ep \in {"protected", "authonly"})
            /\ c = [endpoint |-> ep, cred |-> cr, cfg |-> cf, mode |-> mode, ipHeader |-> iph, host |-> host, conn |-> conn, peer |-> peer, form |-> form,
                    hdr |-> [h \in S |-> IF hv[h] = "a" THEN CHOOSE v \in Values(h) : \A w \in Values(h) : v = w \/ v \in {"whitelisted", "https", "skipauth", "trusted", "benign"}
                                         ELSE CHOOSE v \in Values(h) : v \notin {"whitelisted", "https", "skipauth", "trusted", "benign"}]]
Next == UNCHANGED c

\* model-level statement: with the headers the effective values are what they are without them
NoHdr == [c EXCEPT !.hdr = <<>>]
C16_Ignored == Eff(c.mode # "off", c.ipHeader, c) = Eff(c.mode # "off", c.ipHeader, [c EXCEPT !.hdr = [h \in {} |-> "x"]])

CaseRec == [fam |-> "forwarding", in |-> [c EXCEPT !.hdr = [h \in DOMAIN c.hdr |-> c.hdr[h]]],
            names |-> [i \in 1..Cardinality(DOMAIN c.hdr) |-> "x"],
            req |-> [same |-> TRUE, panic |-> FALSE]]
EmitVocab == JsonSerialize("vocab.json", Vocab)
EmitCase  == CSVWrite("%1$s", <<ToJson(CaseRec)>>, "cases.ndjson")
=============================================================================
