CONSTANTS
  CheckB64 = FALSE
  SuffixLen = 5
INIT Init
NEXT Next
INVARIANTS C02_TamperEvident
CHECK_DEADLOCK FALSE
