//go:build verif

package main

import (
	"sync/atomic"
	"encoding/base64"
	"encoding/json"
	"fmt"
	"os"

	"golang.org/x/crypto/bcrypt"
	mrand "math/rand"
	"strings"
	"sync"
	"testing"
	"time"
)

// lifecycle: behaviours of the integration model Proxy.tla replayed step by step
var vpReloadBroken int32

func init() {
	vpRegister("lifecycle", func(t *testing.T, env *vpEnv) {
		var wg sync.WaitGroup
		ch := make(chan *vpCase, len(env.cases))
		for i := range env.cases {
			ch <- &env.cases[i]
		}
		close(ch)
		userOf := func(email string) string {
			switch email {
			case "alice@example.com":
				return "alice"
			case "bob@other.org":
				return "bob"
			case "":
				return "none"
			}
			return "other:" + email
		}
		type key struct {
			store   string
			refresh bool
		}
		for i := 0; i < 12; i++ {
			wg.Add(1)
			go func(i int) {
				defer wg.Done()
				rng := mrand.New(mrand.NewSource(env.seed*31 + int64(i)))
				worlds := map[key][2]*vpWorld{}
				defer func() {
					for _, p := range worlds {
						p[1].close()
						p[0].close()
					}
				}()
				get := func(k key) ([2]*vpWorld, error) {
					if p, ok := worlds[k]; ok {
						return p, nil
					}
					r := 0
					if k.refresh {
						r = 3600
					}
					mk := func() *vpCfg {
						return &vpCfg{Store: k.store, Refresh: r, EmailDomains: []string{"example.com"}, AllowedGroups: []string{"g1"}, Htpasswd: true, HtpasswdGroups: []string{"g1"}, Bearer: true, Legacy: map[string]bool{"passAccessToken": true, "setXAuthRequest": true}}
					}
					a, err := vpNewWorld(mk())
					if err != nil {
						return [2]*vpWorld{}, err
					}
					c2 := mk()
					c2.EmailDomains = []string{"example.com", "other.org"}
					c2.shareRedis, c2.shareIdP = a.mr, a.idp
					ab, err := vpNewWorld(c2)
					if err != nil {
						a.close()
						return [2]*vpWorld{}, err
					}
					worlds[k] = [2]*vpWorld{a, ab}
					return worlds[k], nil
				}
				curPw := map[key]int{}
				// (process-wide: a reload that was once seen not to happen is not waited for again by any worker - otherwise a broken
				// watcher turns every password change of thousands of behaviours into a three-second wait)
				sentinel := 0
				// the htpasswd file of both proxies rewritten (rename into place) with the bcrypt entry of password version ver;
				// a fresh sentinel user tells when the reload has completed
				writeHt := func(pair [2]*vpWorld, ver int) bool {
					sentinel++
					sn := fmt.Sprintf("sentinel%06d", sentinel) // fixed width: every version of the file has the same size
					h, _ := bcrypt.GenerateFromPassword([]byte(fmt.Sprintf("hp-pass-%d", ver)), bcrypt.MinCost)
					content := "hp:" + string(h) + "\n" + vpHtpasswdLine(sn, "s") + "\n"
					for _, w := range pair {
						tmp := w.htpasswdPath + ".tmp"
						if os.WriteFile(tmp, []byte(content), 0o600) != nil {
							return false
						}
						// ... and the same modification time (a deploy tool that preserves time stamps, two saves within one tick of a
						// coarse clock): what the file says is what counts, not what its metadata suggests
						os.Chtimes(tmp, vpPinnedTime, vpPinnedTime)
						if os.Rename(tmp, w.htpasswdPath) != nil {
							return false
						}
					}
					cred := "Basic " + base64.StdEncoding.EncodeToString([]byte(sn+":s"))
					for _, w := range pair {
						ok := false
						for dl := time.Now().Add(3 * time.Second); time.Now().Before(dl); time.Sleep(300 * time.Microsecond) {
							if w.do(vpReq{Target: "/private", Header: [][2]string{{"Authorization", cred}}}).UpHits > 0 {
								ok = true
								break
							}
						}
						if !ok {
							return false
						}
					}
					return true
				}
				for c := range ch {
					var cm map[string]interface{}
					json.Unmarshal(c.Cfg, &cm)
					k := key{vpS(cm, "store"), vpB(cm, "refresh")}
					pair, err := get(k)
					if err != nil {
						env.emit(vpOut{ID: c.ID, Err: "world: " + err.Error()})
						continue
					}
					if curPw[k] == 0 {
						if !writeHt(pair, 1) {
							env.emit(vpOut{ID: c.ID, Err: "htpasswd: the first version could not be put in force"})
							continue
						}
						curPw[k] = 1
					}
					// the model's password versions 1 / 2 are mapped onto what the file holds now (no rewrite outside the model's steps)
					base := curPw[k]
					actual := func(v int) int {
						if base == 1 {
							return v
						}
						return 3 - v
					}
					if pair[0].mr != nil {
						pair[0].mr.FlushAll() // every behaviour starts from an empty store
					}
					cur := 0 // 0: rules admit alice only; 1: alice and bob
					pair[0].idp.mu.Lock()
					pair[0].idp.refreshMode = "ok"
					pair[0].idp.mu.Unlock()
					// both users are in the allowed group at the IdP to begin with
					pair[0].idp.addUser("alice", vpUser{Sub: "sub-alice", Email: "alice@example.com", Groups: []string{"g1", "g2"}, Username: "alice"})
					pair[0].idp.addUser("bob", vpUser{Sub: "sub-bob", Email: "bob@other.org", Groups: []string{"g1"}, Username: "bobby"})
					jars := map[string]*vpJar{"b1": vpNewJar(), "b2": vpNewJar()}
					type snap struct {
						jar *vpJar
						sid string
					}
					var snaps []snap
					sidOf := func(j *vpJar, w *vpWorld) string {
						// identity of the session a jar holds: the lineage of its tokens (stable across refreshes)
						if ck := j.get(w.name); ck != nil {
							if s, err := w.proxy.sessionStore.Load(w.storeReq(j)); err == nil && s != nil {
								p := strings.Split(s.IDToken, ".")
								if len(p) == 3 {
									return s.User + "|" + s.Email + "|" + strings.SplitN(s.RefreshToken, "-", 3)[0]
								}
							}
						}
						return ""
					}
					_ = sidOf
					cursid := map[string]int{"b1": 0, "b2": 0}
					nsid := 0
					snapSid := []int{}
					var steps []map[string]interface{}
					desync := false
					for _, st := range c.Steps {
						w := pair[cur]
						obs := map[string]interface{}{}
						if desync {
							// the real proxy has issued another number of credentials than the model: the replay indices of the rest of the
							// behaviour would point at other credentials - stop here (the steps so far have been judged)
							steps = append(steps, map[string]interface{}{"diverged": true})
							break
						}
						b := vpS(st.Args, "b")
						jar := jars[b]
						switch st.A {
						case "login":
							u := vpS(st.Args, "user")
							nj := vpNewJar()
							cb, err := w.login(nj, u, "")
							if err != nil {
								obs["diverged"] = true
								break
							}
							obs["session"] = w.sessionCookieEffect(cb)
							if obs["session"] == "set" {
								// a new login replaces whatever the browser held
								jars[b] = nj
								nsid++
								cursid[b] = nsid
								snaps = append(snaps, snap{jar: nj.clone()})
								snapSid = append(snapSid, nsid)
							}
						case "request":
							target := map[string]string{"proxy": "/private", "authonly": w.prefix() + "/auth", "userinfo": w.prefix() + "/userinfo"}[vpS(st.Args, "ep")]
							r := w.get(jar, target)
							email := ""
							switch vpS(st.Args, "ep") {
							case "proxy":
								obs["served"] = r.UpHits > 0
								if r.UpLast != nil {
									email = r.UpLast.Header.Get("X-Forwarded-Email")
								}
							case "authonly":
								obs["served"] = r.Status == 202
								email = r.Header.Get("X-Auth-Request-Email")
							case "userinfo":
								obs["served"] = r.Status == 200
								var ui struct {
									Email string `json:"email"`
								}
								json.Unmarshal(r.Body, &ui)
								email = ui.Email
							}
							obs["status"] = r.Status
							obs["class"] = w.classify(r)
							// net effect on the browser (cookies apply in order: a renewed cookie followed by a clear leaves nothing)
							netSet := w.sessionCookieEffect(r) == "set" && jar.get(w.name) != nil && jar.get(w.name).Value != ""
							if obs["served"] == true {
								obs["user"] = userOf(email)
							} else if jar.get(w.name) == nil {
								cursid[b] = 0
							}
							if netSet {
								snaps = append(snaps, snap{jar: jar.clone()})
								snapSid = append(snapSid, cursid[b])
							}
						case "signout":
							r := w.get(jar, w.prefix()+"/sign_out")
							obs["status"] = r.Status
							obs["redirected"] = r.Status >= 300 && r.Status < 400
							after := w.do(vpReq{Target: "/private", Cookie: jar.header()})
							obs["stillSignedIn"] = after.UpHits > 0
							cursid[b] = 0
						case "replay":
							i := vpI(st.Args, "snap")
							if i < 1 || i > len(snaps) {
								obs["diverged"] = true
								break
							}
							r := w.do(vpReq{Target: "/private", Cookie: snaps[i-1].jar.header()})
							obs["served"] = r.UpHits > 0
							if r.UpLast != nil {
								obs["user"] = userOf(r.UpLast.Header.Get("X-Forwarded-Email"))
							}
							obs["servedAsOther"] = r.UpHits > 0 && obs["user"] != vpS(st.Args, "user")
							if vpB(st.Args, "live") && r.UpHits == 0 {
								obs["stricter"] = true // (conformance note: the model would have honoured this credential)
							}
						case "age":
							d := 2 * time.Hour
							if vpS(st.Args, "to") == "expired" {
								d = 169 * time.Hour
							}
							if err := w.ageSession(jar, d, vpReq{}); err != nil {
								obs["diverged"] = true
								break
							}
							// time passes for every credential of that session
							for k := range snaps {
								if snapSid[k] == cursid[b] && cursid[b] != 0 {
									w.ageSession(snaps[k].jar, d, vpReq{})
								}
							}
							obs["ok"] = true
						case "tamper":
							if ck := jar.get(w.name); ck != nil {
								ck.Value = vpMutateSigned(ck.Value, "tampered_sig", w.name, rng)
							}
							obs["ok"] = true
						case "rules":
							cur = 1 - cur
							obs["reloaded"] = true
						case "basic":
							cred := "Basic " + base64.StdEncoding.EncodeToString([]byte(fmt.Sprintf("hp:hp-pass-%d", actual(vpI(st.Args, "v")))))
							r := w.do(vpReq{Target: "/private", Header: [][2]string{{"Authorization", cred}}})
							obs["served"] = r.UpHits > 0
							obs["status"] = r.Status
							obs["class"] = w.classify(r)
							if r.UpLast != nil {
								obs["user"] = map[string]string{"hp": "hp"}[r.UpLast.Header.Get("X-Forwarded-User")]
							}
						case "bearer":
							// an API client: a bearer token the provider issues for the user right now (current group membership), no cookie
							u := vpS(st.Args, "user")
							var mut func(map[string]interface{})
							if vpS(st.Args, "kind") == "expired" {
								mut = func(cl map[string]interface{}) { cl["exp"] = time.Now().Add(-time.Hour).Unix() }
							}
							pair[0].idp.mu.Lock()
							tok := pair[0].idp.mintIDToken(u, mut, "")
							pair[0].idp.mu.Unlock()
							r := w.do(vpReq{Target: "/private", Header: [][2]string{{"Authorization", "Bearer " + tok}}})
							obs["served"] = r.UpHits > 0
							obs["status"] = r.Status
							obs["class"] = w.classify(r)
							if r.UpLast != nil {
								obs["user"] = userOf(r.UpLast.Header.Get("X-Forwarded-Email"))
							}
						case "pwchange":
							if atomic.LoadInt32(&vpReloadBroken) == 1 {
								obs["reloaded"] = false // (already seen not to happen: no point in waiting again)
							} else {
								obs["reloaded"] = writeHt(pair, actual(vpI(st.Args, "to")))
								if obs["reloaded"] == false {
									atomic.StoreInt32(&vpReloadBroken, 1)
								}
							}
							curPw[k] = actual(vpI(st.Args, "to"))
						case "groups":
							u := vpS(st.Args, "user")
							usr := pair[0].idp.user(u)
							if vpB(st.Args, "member") {
								usr.Groups = []string{"g1", "g2"}
							} else {
								usr.Groups = []string{"g2"}
							}
							pair[0].idp.addUser(u, usr)
							obs["ok"] = true
						case "idp":
							pair[0].idp.mu.Lock()
							if vpB(st.Args, "ok") {
								pair[0].idp.refreshMode = "ok"
							} else {
								pair[0].idp.refreshMode = "fail"
							}
							pair[0].idp.mu.Unlock()
							obs["ok"] = true
						case "flush":
							if w.mr != nil {
								w.mr.FlushAll()
							}
							obs["ok"] = true
						}
						// the projection of the real state (conformance with the model's abstract state after the step)
						has := func(j *vpJar) bool { ck := j.get(w.name); return ck != nil && ck.Value != "" }
						obs["b1"], obs["b2"] = has(jars["b1"]), has(jars["b2"])
						ns := 0
						if w.mr != nil {
							for _, k := range w.mr.Keys() {
								if !strings.HasSuffix(k, ".lock") && !strings.Contains(k, "lock") {
									ns++
								}
							}
						}
						obs["nstored"] = ns
						obs["nsnaps"] = len(snaps)
						if st.Impl != nil && vpI(st.Impl, "nsnaps") != len(snaps) {
							desync = true
						}
						steps = append(steps, obs)
						if obs["diverged"] == true {
							break
						}
					}
					env.emit(vpOut{ID: c.ID, Steps: steps})
				}
			}(i)
		}
		wg.Wait()
	})
}

var vpPinnedTime = time.Date(2024, 1, 2, 3, 4, 5, 0, time.UTC)
