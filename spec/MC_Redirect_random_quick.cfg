CONSTANTS
  MaxLen = 1
  RandN = 40
  RandLen = 8
INIT InitRandom
NEXT Next
INVARIANTS C06_NoOpenRedirect EmitCase
CHECK_DEADLOCK FALSE
