---------------------------- MODULE Trace_Refresh ----------------------------
(* Judge for C12: validates traces recorded from the real proxy - replays of the  *)
(* interleavings TLC enumerated (gate scheduler) and free-running concurrent       *)
(* requests (run under the race detector).  Events are totally ordered (executed   *)
(* order of store operations, identity-provider calls and request completions).    *)
(* A "begin" event starts a new behaviour and resets the monitor.                  *)
EXTENDS Integers, Sequences, TLC, Json

Trace == ndJsonDeserialize("trace.ndjson")

VARIABLES i, storedGen, last, pre, failed     \* failed: refresh attempts the provider refused in this behaviour
vars == <<i, storedGen, last, pre, failed>>

NoEvent == [kind |-> "none", r |-> 0, gen |-> -1, ok |-> FALSE, served |-> 0, calls |-> 0, n |-> 0, status |-> 0, cleared |-> FALSE,
            panic |-> FALSE, mode |-> "none", stale |-> FALSE, lockExpires |-> FALSE, eid |-> 0, trace |-> 0,
            signout |-> FALSE, signedOut |-> FALSE, lateOk |-> FALSE]
Init == i = 1 /\ storedGen = 0 /\ last = NoEvent /\ pre = 0 /\ failed = 0

Consume ==
    /\ i <= Len(Trace)
    /\ LET e == Trace[i] IN
       /\ last' = e
       /\ pre' = storedGen
       /\ storedGen' = CASE e.kind = "begin" -> 0
                         [] e.kind = "set"   -> e.gen
                         [] e.kind = "del"   -> -1
                         [] OTHER            -> storedGen
       /\ failed' = CASE e.kind = "begin" -> 0
                       [] e.kind = "refresh" /\ ~e.ok -> failed + 1
                       [] OTHER -> failed
    /\ i' = i + 1
Next == Consume
Spec == Init /\ [][Next]_vars

Working == last.mode \in {"ok", "norotate"}
Served  == last.kind = "done" /\ last.ok

\* a stale session is never honoured with the tokens it had before the refresh period ran out (when the provider can refresh)
\* When the lock expires under a holder, a second request redeems a refresh token the first has already spent (rotation): the
\* provider refuses, the request falls back to re-validation and is rightly honoured with the tokens it holds (Refresh!validated).
Mon_NoStaleServe == (Served /\ last.stale /\ Working) => (last.gen >= 1 \/ (last.lockExpires /\ failed > 0))
\* whoever is served carries what is stored: the new tokens
\* (signout: one of the behaviour's requests is a sign-out - what is stored then legitimately disappears under the others)
Mon_NewTokens    == (Served /\ Working /\ ~last.lockExpires /\ ~last.signout) => last.gen = pre
\* later requests carry the new tokens too
Mon_Late         == (last.kind = "late" /\ Working /\ ~last.lockExpires /\ ~last.signout) => (last.ok /\ last.gen = pre)
\* exactly one refresh at the provider, everybody served
Mon_OneRefresh   == (last.kind = "end" /\ Working /\ last.stale /\ ~last.lockExpires /\ ~last.signout) => (last.calls = 1 /\ last.served = last.n)
\* C11 under concurrency (Refresh!SignedOutStays): a sign-out was answered with the success redirect and everything in flight has
\* finished - the stored session is gone and the browser's cookie no longer authenticates
Mon_SignedOut    == (last.kind = "end" /\ last.signedOut /\ ~last.lockExpires) => (~last.ok /\ ~last.lateOk)
\* neither refresh nor validation succeeds: unauthenticated, cookie cleared
Mon_FailClosed   == (last.mode = "failinvalid" /\ last.stale) =>
                       /\ (last.kind = "done" => (~last.ok /\ last.cleared))
                       /\ (last.kind = "late" => ~last.ok)
                       /\ (last.kind = "end"  => last.served = 0)      \* (whether the store entry is deleted or left to expire is not the property's business)
Mon_NoPanic      == last.kind = "done" => ~last.panic

TraceAccepted == TLCGet("stats").diameter - 1 = Len(Trace)
=============================================================================
