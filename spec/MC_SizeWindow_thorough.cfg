CONSTANTS
  W = 60
  NameLens = {13, 40, 100, 250}
  Thresholds = {1, 2, 3}
  Attrs = {"light", "heavy"}
INIT Init
NEXT Next
INVARIANTS EmitCase
CHECK_DEADLOCK FALSE
