-------------------------------- MODULE Str --------------------------------
(* Strings as finite sequences of atoms.  Every family gives its atoms a     *)
(* concrete text in its Vocab record (exported to the harness as JSON); the  *)
(* texts are chosen comma-free (pairwise disjoint character sets, no         *)
(* self-overlap), so that prefix / suffix / substring relations on atom      *)
(* sequences coincide with the same relations on the concrete byte strings.  *)
EXTENDS Naturals, Sequences, FiniteSets

\* all sequences over S with length in lo..hi
SeqsUpTo(S, lo, hi) == UNION {[1..n -> S] : n \in lo..hi}

StartsWith(s, p) == Len(p) <= Len(s) /\ \A i \in 1..Len(p) : s[i] = p[i]
EndsWith(s, p)   == Len(p) <= Len(s) /\ \A i \in 1..Len(p) : s[Len(s) - Len(p) + i] = p[i]
OccursAt(s, p, k) == k + Len(p) - 1 <= Len(s) /\ \A i \in 1..Len(p) : s[k + i - 1] = p[i]
HasSub(s, p)     == \E k \in 1..(Len(s) + 1) : OccursAt(s, p, k)
IndexOf(s, a)    == IF \E i \in 1..Len(s) : s[i] = a
                    THEN CHOOSE i \in 1..Len(s) : s[i] = a /\ \A j \in 1..(i-1) : s[j] # a
                    ELSE 0
LastIndexOf(s, a) == IF \E i \in 1..Len(s) : s[i] = a
                     THEN CHOOSE i \in 1..Len(s) : s[i] = a /\ \A j \in (i+1)..Len(s) : s[j] # a
                     ELSE 0
Take(s, n) == SubSeq(s, 1, n)
Drop(s, n) == SubSeq(s, n + 1, Len(s))
Has(s, a)  == \E i \in 1..Len(s) : s[i] = a
RangeOf(s) == {s[i] : i \in 1..Len(s)}
RECURSIVE SetAsSeq(_)
SetAsSeq(S) == IF S = {} THEN <<>> ELSE LET x == CHOOSE y \in S : TRUE IN <<x>> \o SetAsSeq(S \ {x})
Max2(a, b) == IF a >= b THEN a ELSE b
Min2(a, b) == IF a <= b THEN a ELSE b
=============================================================================
