CONSTANTS
  MaxOps = 3
  MaxParts = 3
  Stores = {"cookie"}
  NameLens = {13}
  StaleCleanup = FALSE
INIT Init
NEXT Next
INVARIANTS TypeOK C10_RoundTrip
CHECK_DEADLOCK FALSE
