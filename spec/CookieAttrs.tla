----------------------------- MODULE CookieAttrs -----------------------------
(* C18: every Set-Cookie carries the configured protection attributes and the *)
(* right Domain.  Hosts and cookie domains are sequences of atoms (labels and  *)
(* "dot"; look-alike hosts are built by concatenating label atoms without a    *)
(* dot), concretised comma-free, so suffix relations on atoms are suffix       *)
(* relations on bytes.                                                         *)
(*   Req_Domain  - RFC 6265 domain-match on the host NAME (port removed),      *)
(*                 longest configured match, else shortest configured, else "" *)
(*   Impl_Domain - pkg/cookies: strip port (repaired), first entry of the      *)
(*                 length-sorted list that is a string suffix of the host.     *)
(* Cells in which string-suffix and RFC domain-match disagree for a configured *)
(* domain (look-alike host, host equal to a dotted domain) are ambiguous in    *)
(* the property's wording and are kept out of the domain (DESIGN App. C 8).    *)
EXTENDS Naturals, Sequences, FiniteSets, TLC, Json, CSV, Str

CONSTANTS Tier

Vocab == [ atoms |-> [ dot |-> ".", x |-> "x", app |-> "app", example |-> "example", com |-> "com",
                       bad |-> "bad", unrelated |-> "unrelated", net |-> "net", colon |-> ":", port |-> "4180" ] ]
ALen == [ dot |-> 1, x |-> 1, app |-> 3, example |-> 7, com |-> 3, bad |-> 3, unrelated |-> 9, net |-> 3, colon |-> 1, port |-> 4 ]
RECURSIVE TextLen(_)
TextLen(s) == IF s = <<>> THEN 0 ELSE ALen[Head(s)] + TextLen(Tail(s))

EX   == <<"example", "dot", "com">>
APP  == <<"app", "dot">> \o EX
XAPP == <<"x", "dot">> \o APP
Hosts == { EX, APP, XAPP, <<"bad">> \o APP, <<"unrelated", "dot", "net">> }
Ports == { <<>>, <<"colon", "port">> }

\* configured cookie domains (with and without leading dot), as sets of distinct text length
D_EX == <<"dot">> \o EX      D_APP == <<"dot">> \o APP     D_XAPP == <<"dot">> \o XAPP
DomainSets == { {}, {D_EX}, {D_APP}, {EX}, {APP}, {D_EX, D_APP}, {D_EX, D_APP, D_XAPP}, {EX, APP}, {D_EX, APP}, {D_APP, D_XAPP} }

\* ---- matching ---------------------------------------------------------------------------
StripDot(d)  == IF Len(d) > 0 /\ d[1] = "dot" THEN Tail(d) ELSE d
RFCMatch(h, d)    == LET dd == StripDot(d) IN h = dd \/ EndsWith(h, <<"dot">> \o dd)
SuffixMatch(h, d) == EndsWith(h, d)
Unambiguous(h, ds) == \A d \in ds : RFCMatch(h, d) = SuffixMatch(h, d)

Longest(S)  == CHOOSE d \in S : \A e \in S : TextLen(e) <= TextLen(d)
Shortest(S) == CHOOSE d \in S : \A e \in S : TextLen(e) >= TextLen(d)

Req_Domain(h, ds) ==
    LET m == {d \in ds : RFCMatch(h, d)}
    IN IF ds = {} THEN <<>> ELSE IF m # {} THEN Longest(m) ELSE Shortest(ds)

\* implementation: domains sorted by decreasing length at validation time; first suffix match wins
RECURSIVE SortDesc(_)
SortDesc(S) == IF S = {} THEN <<>> ELSE LET d == Longest(S) IN <<d>> \o SortDesc(S \ {d})
StripPort(hp) == LET i == IndexOf(hp, "colon") IN IF i = 0 THEN hp ELSE Take(hp, i - 1)
Impl_Domain(hp, ds) ==
    LET h == StripPort(hp)
        l == SortDesc(ds)
        hit == {i \in 1..Len(l) : SuffixMatch(h, l[i])}
    IN IF ds = {} THEN <<>>
       ELSE IF hit # {} THEN l[CHOOSE i \in hit : \A j \in hit : i <= j]
       ELSE l[Len(l)]
\* named deviation (pre-fix): the port takes part in the suffix comparison
Impl_DomainWithPort(hp, ds) ==
    LET l == SortDesc(ds)
        hit == {i \in 1..Len(l) : SuffixMatch(hp, l[i])}
    IN IF ds = {} THEN <<>> ELSE IF hit # {} THEN l[CHOOSE i \in hit : \A j \in hit : i <= j] ELSE l[Len(l)]

\* ---- cases -------------------------------------------------------------------------------
SameSites == {"", "lax", "strict", "none"}
PathsC    == {"/", "/app"}
\* csrf = "perreq": per-request CSRF cookie names; the browser then also still holds the (no longer valid) CSRF cookie of an
\* abandoned earlier login when it completes this one
Mk2(sec, ho, ss, pa, ds, h, po, via, st, sz, nl, cs) ==
    [secure |-> sec, httpOnly |-> ho, sameSite |-> ss, path |-> pa, domains |-> ds, host |-> h, port |-> po,
     via |-> via, store |-> st, size |-> sz, nameLen |-> nl, csrf |-> cs]
Mk(sec, ho, ss, pa, ds, h, po, via, st, sz, nl) == Mk2(sec, ho, ss, pa, ds, h, po, via, st, sz, nl, "fixed")

DefaultAttrs(c) == c.secure /\ c.httpOnly /\ c.sameSite = "" /\ c.path = "/"
InScope(c) ==
    /\ Unambiguous(c.host, c.domains)
    /\ (Tier = "quick" => \/ (c.domains = {} /\ c.host = APP /\ c.port = <<>> /\ c.via = "host" /\ c.nameLen = "default")
                          \/ (DefaultAttrs(c) /\ c.nameLen = "default"))
    /\ (c.nameLen = "long" => DefaultAttrs(c) /\ c.via = "host")
    /\ (c.csrf = "perreq" => c.nameLen = "default" /\ c.size = "small" /\ c.via = "host" /\ c.port = <<>>
                              /\ (Tier = "quick" => c.store = "cookie" /\ (DefaultAttrs(c) \/ c.domains = {})))
    \* the attribute sweep and the domain sweep are crossed only on two domain sets (keeps distinct configurations in the low thousands)
    /\ (Tier = "thorough" => DefaultAttrs(c) \/ c.domains \in {{}, {D_EX, D_APP}})

VARIABLE c
Init == \E sec \in BOOLEAN, ho \in BOOLEAN, ss \in SameSites, pa \in PathsC, ds \in DomainSets, h \in Hosts, po \in Ports,
           via \in {"host", "xfh"}, st \in {"cookie", "redis"}, sz \in {"small", "split"}, nl \in {"default", "long"}, cs \in {"fixed", "perreq"} :
          c = Mk2(sec, ho, ss, pa, ds, h, po, via, st, sz, nl, cs) /\ InScope(c)
Next == UNCHANGED c

ImplMeetsReq    == Impl_Domain(c.host \o c.port, c.domains) = Req_Domain(c.host, c.domains)
PreFixWouldPass == Impl_DomainWithPort(c.host \o c.port, c.domains) = Req_Domain(c.host, c.domains)

\* on the wire a leading dot of the Domain attribute is not sent (RFC 6265 5.2.3 ignores it; net/http drops it)
WireDomain(d) == StripDot(d)
\* every Set-Cookie of the whole flow must carry exactly this attribute tuple
Req_Attrs(d) == [secure |-> d.secure, httpOnly |-> d.httpOnly, sameSite |-> d.sameSite, path |-> d.path,
                 domain |-> WireDomain(Req_Domain(d.host, d.domains))]
\* (cookiesSeen is a guard against vacuity - a flow sets and deletes at least the CSRF and the session cookie - not a statement
\* about how many Set-Cookie headers an implementation may use)
CaseRec(d) == [fam |-> "c18", in |-> [d EXCEPT !.domains = SetAsSeq(d.domains)],
               req  |-> [attrs |-> <<Req_Attrs(d)>>, maxLen |-> [le |-> 4096], sessionCookiesAfterSignOut |-> 0,
                         cookiesSeen |-> [ge |-> 3], refreshCookie |-> "set"],
               impl |-> [domain |-> WireDomain(Impl_Domain(d.host \o d.port, d.domains))]]
EmitVocab == JsonSerialize("vocab.json", Vocab)
EmitCase  == CSVWrite("%1$s", <<ToJson(CaseRec(c))>>, "cases.ndjson")
=============================================================================
