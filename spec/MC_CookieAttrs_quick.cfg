CONSTANTS
  Tier = "quick"
INIT Init
NEXT Next
INVARIANTS ImplMeetsReq EmitCase
CHECK_DEADLOCK FALSE
