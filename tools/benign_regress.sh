#!/bin/bash
# usage: tools/benign_regress.sh   -- runs every property-preserving change of benign/ against the checks listed for it in benign/REGRESS.txt
# (the checks whose requirement the change comes near), LANES at a time; prints one line per check that does not exit 0 and a summary per change.
ROOT="$(cd "$(dirname "$0")/.." && pwd)"; cd "$ROOT"
grep -v '^#' benign/REGRESS.txt | xargs -P ${LANES:-3} -L 1 bash -c 'tag=$0; "'"$ROOT"'/tools/try_benign.sh" "'"$ROOT"'/benign/$tag/patch.diff" $tag "$@"'
