//go:build verif

package main

// Cross-driver monitor (C18, C19): with VP_MONITOR set, every response of every driver is observed:
// each Set-Cookie of a proxy cookie is recorded with the configuration and effective host it was produced
// under (deduplicated), and every panic is recorded.  The orchestrator has TLC judge the records.

import (
	"encoding/json"
	"fmt"
	"net/http"
	"os"
	"strings"
	"sync"
	"testing"
)

type vpMonitor struct {
	mu   sync.Mutex
	f    *os.File
	seen map[string]bool
	n    int
}

var vpMon *vpMonitor

func init() {
	if p := os.Getenv("VP_MONITOR"); p != "" {
		f, err := os.OpenFile(p, os.O_CREATE|os.O_WRONLY|os.O_APPEND, 0o644)
		if err == nil {
			vpMon = &vpMonitor{f: f, seen: map[string]bool{}}
		}
	}
}

func (m *vpMonitor) write(key string, rec map[string]interface{}) {
	m.mu.Lock()
	defer m.mu.Unlock()
	m.n++
	if key != "" {
		if m.seen[key] {
			return
		}
		m.seen[key] = true
	}
	b, _ := json.Marshal(rec)
	m.f.Write(append(b, '\n'))
}

func (m *vpMonitor) observe(w *vpWorld, req *http.Request, r vpReq, out *vpResp) {
	fam := os.Getenv("VP_FAMILY")
	short := func(s string) string {
		if len(s) > 200 {
			return s[:200] + "..."
		}
		return s
	}
	if out.Panic != "" {
		// complete request and world configuration: the record is the replay (family "rawreq")
		m.write("", map[string]interface{}{"kind": "panic", "family": fam, "panic": short(out.Panic), "cfg": w.cfg,
			"request": map[string]interface{}{"method": r.Method, "target": r.Target, "host": r.Host, "cookie": r.Cookie, "header": r.Header,
				"body": r.Body, "form": r.Form, "remote": r.RemoteAddr, "scheme": r.Scheme}})
	}
	lines := out.Header.Values("Set-Cookie")
	if len(lines) == 0 || w.opts == nil {
		return
	}
	host := req.Host
	if w.opts.ReverseProxy {
		if xfh := req.Header.Get("X-Forwarded-Host"); xfh != "" {
			host = xfh
		}
	}
	co := w.opts.Cookie
	cfg := map[string]interface{}{"secure": co.Secure, "httpOnly": co.HTTPOnly, "sameSite": strings.ToLower(co.SameSite), "path": co.Path, "domains": co.Domains}
	for i, ck := range out.Cookies {
		kind := ""
		switch {
		case w.isCSRFCookieName(ck.Name):
			kind = "csrf"
		case w.isSessionCookieName(ck.Name):
			kind = "session"
		default:
			continue // not a cookie of the proxy (an upstream's own cookie passes through unchanged)
		}
		rawLen := 0
		if i < len(lines) {
			rawLen = len(lines[i])
		}
		big := rawLen > 4096
		rec := map[string]interface{}{"kind": "cookie", "family": fam, "ckind": kind, "cfg": cfg, "host": host, "secure": ck.Secure, "httpOnly": ck.HttpOnly,
			"sameSite": vpSameSiteName(ck.SameSite), "path": ck.Path, "domain": ck.Domain, "deletion": ck.Value == "" || ck.MaxAge < 0, "len": rawLen,
			"nameLen": len(ck.Name), "target": short(r.Target)}
		key := fmt.Sprint(kind, cfg, host, ck.Secure, ck.HttpOnly, ck.SameSite, ck.Path, ck.Domain, ck.Value == "" || ck.MaxAge < 0, big)
		m.write(key, rec)
	}
}

// rawreq: replays a request recorded by the monitor against a world rebuilt from the recorded configuration
func init() {
	vpRegister("rawreq", func(t *testing.T, env *vpEnv) {
		for i := range env.cases {
			c := &env.cases[i]
			var cfg vpCfg
			b, _ := json.Marshal(c.In["cfg"])
			json.Unmarshal(b, &cfg)
			w, err := vpNewWorld(&cfg)
			if err != nil {
				env.emit(vpOut{ID: c.ID, Err: "world: " + err.Error()})
				continue
			}
			rq := vpM(c.In, "request")
			r := vpReq{Method: vpS(rq, "method"), Target: vpS(rq, "target"), Host: vpS(rq, "host"), Cookie: vpS(rq, "cookie"), Body: vpS(rq, "body"),
				Form: vpB(rq, "form"), RemoteAddr: vpS(rq, "remote"), Scheme: vpS(rq, "scheme")}
			if hl, ok := rq["header"].([]interface{}); ok {
				for _, h := range hl {
					if p, ok := h.([]interface{}); ok && len(p) == 2 {
						r.Header = append(r.Header, [2]string{fmt.Sprint(p[0]), fmt.Sprint(p[1])})
					}
				}
			}
			out := w.do(r)
			env.emit(vpOut{ID: c.ID, Obs: map[string]interface{}{"panic": out.Panic != "", "status": out.Status}, Conc: map[string]interface{}{"panic": out.Panic}})
			w.close()
		}
	})
}
