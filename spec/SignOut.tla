------------------------------- MODULE SignOut -------------------------------
(* C11: sign-out ends the session.                                               *)
(* A browser logs in, makes requests (some of which refresh the session, which    *)
(* may grow or shrink it across the cookie split threshold), signs out and then    *)
(* every cookie set the browser ever held is replayed.                             *)
(*   cookie store : the session lives in 1 or 2 cookies (NAME / NAME_0,NAME_1)     *)
(*   redis store  : one ticket cookie; the session lives under the ticket's key    *)
EXTENDS Naturals, Sequences, FiniteSets, TLC, Json, CSV, Str

\* DomainCfgs: configuration variants - cookie domains (none / dotted / two) or, without domains, a backend-logout URL whose endpoint
\* answers 200 / 500 / not at all, the connection being dropped (backend_ok / backend_fail / backend_reset)
CONSTANTS MaxReqs, Stores, DomainCfgs, DeleteKey   \* DeleteKey = FALSE: named deviation "cookie cleared, key kept" (selftest)

Vocab == [ atoms |-> [ none |-> "" ] ]

VARIABLES jar,       \* set of session cookie slots the browser holds: subset of {"base", "p0", "p1"}
          snaps,     \* sequence of jar snapshots the browser ever held (each: [slots, gen])
          gen,       \* generation of the session (incremented by every refresh)
          stored,    \* redis: "none" | generation stored under the ticket key
          phase,     \* "fresh" | "in" | "out" | "done"
          cfg, hist
vars == <<jar, snaps, gen, stored, phase, cfg, hist>>

Slots(parts) == IF cfg.store = "redis" \/ parts = 1 THEN {"base"} ELSE {"p0", "p1"}
Snap == [slots |-> jar, gen |-> gen]

Init == /\ jar = {} /\ snaps = <<>> /\ gen = 0 /\ stored = 0 /\ phase = "fresh" /\ hist = <<>>
        /\ cfg \in [store : Stores, domains : DomainCfgs]

Login(parts) ==
    /\ phase = "fresh"
    /\ jar' = Slots(parts) /\ gen' = 1 /\ stored' = (IF cfg.store = "redis" THEN 1 ELSE 0)
    /\ snaps' = <<[slots |-> Slots(parts), gen |-> 1]>>
    /\ phase' = "in"
    /\ hist' = Append(hist, [a |-> "login", args |-> [parts |-> parts], req |-> [served |-> TRUE], impl |-> [cookies |-> SetAsSeq(Slots(parts))]])
    /\ UNCHANGED cfg

Reqs == Len(SelectSeq(hist, LAMBDA h : h.a \in {"request", "refresh"}))
Request ==
    /\ phase = "in" /\ Reqs < MaxReqs
    /\ hist' = Append(hist, [a |-> "request", args |-> [parts |-> 0], req |-> [served |-> TRUE]])
    /\ UNCHANGED <<jar, snaps, gen, stored, phase, cfg>>
\* the session is older than the refresh period: refreshed at the IdP and saved again, possibly with another size
Refresh(parts) ==
    /\ phase = "in" /\ Reqs < MaxReqs
    /\ jar' = Slots(parts)           \* the repaired store expires the cookies the new save does not use
    /\ gen' = gen + 1
    /\ stored' = (IF cfg.store = "redis" THEN gen + 1 ELSE 0)
    /\ snaps' = Append(snaps, [slots |-> Slots(parts), gen |-> gen + 1])
    /\ hist' = Append(hist, [a |-> "refresh", args |-> [parts |-> parts], req |-> [served |-> TRUE, refreshed |-> TRUE], impl |-> [cookies |-> SetAsSeq(Slots(parts))]])
    /\ UNCHANGED <<phase, cfg>>

\* stale = 0: the session is inside the refresh period.  stale = p > 0: the session is older than the refresh period when the
\* sign-out arrives, so the session loader refreshes it (re-saving it with p cookie parts) in the very request that signs out.
SignOut(method, rd, fault, stale) ==
    /\ phase = "in"
    /\ (fault # "none" => cfg.store = "redis" /\ stale = 0)
    /\ gen' = IF stale > 0 THEN gen + 1 ELSE gen
    /\ IF fault = "none"
       THEN /\ jar' = {} /\ stored' = (IF DeleteKey THEN 0 ELSE stored)
            /\ hist' = Append(hist, [a |-> "signout", args |-> [method |-> method, rd |-> rd, fault |-> fault, stale |-> stale],
                                     req |-> [redirected |-> TRUE, sessionCookiesLeft |-> 0, deletedAll |-> TRUE, deletionAttrsMatch |-> TRUE,
                                              keyExists |-> FALSE, stillSignedIn |-> FALSE]])
       ELSE \* the store fails (only the DEL, or every command of this request): the answer must be an error, not the redirect,
            \* as long as the stored session is still there
            /\ jar' = {} /\ stored' = stored
            /\ hist' = Append(hist, [a |-> "signout", args |-> [method |-> method, rd |-> rd, fault |-> fault, stale |-> stale],
                                     req |-> [redirected |-> FALSE, keyExists |-> TRUE]])
    /\ phase' = "out"
    /\ UNCHANGED <<snaps, cfg>>

\* every cookie set the browser ever held is presented again
\* server-side store: none may authenticate after a successful sign-out.  (With the cookie store the credential is
\* self-contained; the property only demands the deletion, so nothing is asserted about replays there.)
SignedOutOK == \E i \in 1..Len(hist) : hist[i].a = "signout" /\ hist[i].args.fault = "none"
ReplayAll ==
    /\ phase = "out"
    /\ hist' = Append(hist, [a |-> "replay", args |-> [n |-> Len(snaps)],
                             req |-> IF cfg.store = "redis" /\ SignedOutOK THEN [authenticated |-> 0] ELSE [replayed |-> Len(snaps)]])
    /\ phase' = "done"
    /\ UNCHANGED <<jar, snaps, gen, stored, cfg>>

Next == \/ \E p \in {1, 2} : Login(p) \/ Refresh(p)
        \/ Request
        \/ \E m \in {"GET", "POST"}, rd \in {"none", "path"}, f \in {"none", "del_error", "outage"}, st \in 0..2 : SignOut(m, rd, f, st)
        \/ ReplayAll

\* model-level: after a successful sign-out nothing is stored and the jar is empty
C11_Ended == (phase \in {"out", "done"} /\ SignedOutOK) => (jar = {} /\ stored = 0)

CaseRec == [fam |-> "signout", cfg |-> cfg, in |-> [cfg |-> cfg, steps |-> Len(hist)], steps |-> hist]
EmitVocab == JsonSerialize("vocab.json", Vocab)
EmitCase  == (phase = "done") => CSVWrite("%1$s", <<ToJson(CaseRec)>>, "cases.ndjson")
=============================================================================
