//go:build verif

package main

// World: the real OAuthProxy (built by validation.Validate + NewOAuthProxy from an
// abstract configuration record) surrounded by harness-owned environment: fake
// identity provider, miniredis, recording upstreams, browser cookie jars and an
// observation projector. No property logic lives here: only concretisation
// (abstract value -> bytes) and projection (response -> abstract observation).

import (
	"crypto/tls"
	"crypto/rand"
	"crypto/sha1"
	"encoding/pem"
	"encoding/base64"
	"encoding/json"
	"fmt"
	"io"
	"net"
	"net/http"
	"net/http/httptest"
	"net/url"
	"os"
	"path/filepath"
	"reflect"
	"regexp"
	"sort"
	"strings"
	"sync"
	"sync/atomic"
	"time"

	"github.com/alicebob/miniredis/v2"
	"github.com/oauth2-proxy/oauth2-proxy/v7/pkg/apis/options"
	"github.com/oauth2-proxy/oauth2-proxy/v7/pkg/logger"
	"github.com/oauth2-proxy/oauth2-proxy/v7/pkg/util"
	"github.com/oauth2-proxy/oauth2-proxy/v7/pkg/validation"
)

// ---------------------------------------------------------------------------------------------
// abstract configuration record (mirror of spec/Vocabulary Cfg; unknown keys are ignored)

type vpHeaderCfg struct {
	Name     string `json:"name"`
	Claim    string `json:"claim"`
	Prefix   string `json:"prefix"`
	BasicPw  string `json:"basicpw"`
	Preserve bool   `json:"preserve"`
	Secret   string `json:"secret"`
	NoValues bool   `json:"novalues"` // a configured name with an empty value list
}

type vpCfg struct {
	Store              string   `json:"store"`   // cookie | redis
	Expire             *int     `json:"expire"`  // seconds; nil => default (168h)
	Refresh            int      `json:"refresh"` // seconds
	CSRFPerRequest     bool     `json:"csrfPerRequest"`
	CSRFExpire         int      `json:"csrfExpire"`
	EncodeState        bool     `json:"encodeState"`
	PKCE               string   `json:"pkce"` // "", "none", S256, plain
	SkipNonce          bool     `json:"skipNonce"`
	SkipProviderButton bool     `json:"skipProviderButton"`
	ReverseProxy       bool     `json:"reverseProxy"`
	RealIPHeader       string   `json:"realIPHeader"`
	TrustedIPs         []string `json:"trustedIPs"`
	SkipAuthRoutes     []string `json:"skipAuthRoutes"`
	SkipAuthRegex      []string `json:"skipAuthRegex"`
	Preflight          bool     `json:"preflight"`
	EmailDomains       []string `json:"emailDomains"` // nil => ["*"]
	EmailsFile         *string  `json:"emailsFile"`   // file contents; nil => no file
	AllowedGroups      []string `json:"allowedGroups"`
	Whitelist          []string `json:"whitelist"`
	CookieName         string   `json:"cookieName"`
	CookieSecret       string   `json:"cookieSecret"`
	CookieSecure       *bool    `json:"cookieSecure"`
	CookieHTTPOnly     *bool    `json:"cookieHttpOnly"`
	CookieSameSite     string   `json:"cookieSameSite"`
	CookiePath         string   `json:"cookiePath"`
	CookieDomains      []string `json:"cookieDomains"`
	CookieMinimal      bool     `json:"cookieMinimal"`
	ForceJSON          bool     `json:"forceJSON"`
	ForceHTTPS         bool     `json:"forceHTTPS"`
	APIRoutes          []string `json:"apiRoutes"`
	Bearer             bool     `json:"bearer"`
	ExtraIssuer        bool     `json:"extraIssuer"`
	ExtraIssuer2       bool     `json:"extraIssuer2"` // a second extra issuer, without discovery document, listed before the first
	Htpasswd           bool     `json:"htpasswd"`
	HtpasswdGroups     []string `json:"htpasswdGroups"`
	DisplayLoginForm   bool     `json:"displayLoginForm"`
	RedirectURL        string   `json:"redirectURL"`
	ProxyPrefix        string   `json:"proxyPrefix"` // "" => /oauth2

	// provider / token verification
	StaticKeys           bool     `json:"staticKeys"` // skip discovery, PEM public key file
	JWKSURLOnly          bool     `json:"jwksOnly"`   // skip discovery, jwks url
	AllowUnverifiedEmail bool     `json:"allowUnverifiedEmail"`
	EmailClaim           string   `json:"emailClaim"`
	GroupsClaim          string   `json:"groupsClaim"`
	UserClaim            string   `json:"userClaim"`
	AudienceClaims       []string `json:"audienceClaims"`
	ExtraAudiences       []string `json:"extraAudiences"`
	SkipClaimsProfile    bool     `json:"skipClaimsFromProfile"`
	NoProfileURL         bool     `json:"noProfileURL"`
	BackendLogout        bool     `json:"backendLogout"`

	// upstreams: abstract list; each entry "http:<path>", "static:<code>", "file:<path>"; rewrite via structured
	Upstreams   []vpUpstreamCfg `json:"upstreams"`
	PassHost    *bool           `json:"passHost"`
	ProxyRawPath bool           `json:"rawPath"`

	// headers: legacy flags (nil => defaults) or structured lists
	Legacy   map[string]bool `json:"legacy"`
	BasicPw  string          `json:"basicAuthPassword"`
	ReqHdrs  []vpHeaderCfg   `json:"reqHeaders"`
	RespHdrs []vpHeaderCfg   `json:"respHeaders"`
	Structured bool          `json:"structuredHeaders"`

	// not part of the abstract record: an existing Redis to share (a restarted / second proxy instance)
	AdvertisePKCE string
	EmailsViaSymlink bool // the e-mails file is reached through symlinks (versions are published by swapping a link)
	UnsetClaimNames bool // structured provider configuration without e-mail / groups claim names

	// options no listed property's requirement reads (spec/Perturb.tla: frame conditions); zero value = the option's default
	Banner               string `json:"banner"`
	Footer               string `json:"footer"`
	Scope                string `json:"scope"`
	Prompt               string `json:"prompt"`
	AcrValues            string `json:"acrValues"`
	ApprovalPrompt       string `json:"approvalPrompt"`
	Resource             string `json:"resource"`
	ProviderDisplayName  string `json:"providerDisplayName"`
	RequestIDHeader      string `json:"requestIDHeader"`
	PingPath             string `json:"pingPath"`
	ReadyPath            string `json:"readyPath"`
	PingUserAgent        string `json:"pingUserAgent"`
	GCPHealthChecks      bool   `json:"gcpHealthChecks"`
	UpstreamTimeoutSec   int    `json:"upstreamTimeoutSec"`
	FlushIntervalMs      int    `json:"flushIntervalMs"`
	RedisPassword        string `json:"redisPassword"`
	RedisIdleTimeoutSec  int    `json:"redisIdleTimeoutSec"`
	AllowQuerySemicolons bool   `json:"allowQuerySemicolons"`
	RelativeRedirectURL  bool   `json:"relativeRedirectURL"`
	SignatureKey         string `json:"signatureKey"`
	SSLInsecure          bool   `json:"sslInsecure"`
	Logging              bool   `json:"logging"` // request / auth / standard logging enabled (written to a discarding writer)
	ProxyWebSocketsOff   bool   `json:"proxyWebSocketsOff"`
	SkipIssuerCheck      bool   `json:"skipIssuerCheck"`
	LoginParams          bool   `json:"loginParams"` // the loginURLParameters rule set of spec/StartParams.tla
	shareRedis *miniredis.Miniredis `json:"-"`
	shareIdP   *vpIdP               `json:"-"`
}

type vpUpstreamCfg struct {
	ID      string `json:"id"`
	Kind    string `json:"kind"` // http | static | file
	Path    string `json:"path"`
	Rewrite string `json:"rewrite"` // rewriteTarget (structured only)
	Code    int    `json:"code"`
}

// ---------------------------------------------------------------------------------------------
// recording upstream

type vpUpReq struct {
	Seq      int64
	Upstream string
	Method   string
	Target   string // request-target as received on the wire
	Host     string
	Header   http.Header
	Body     []byte
}

type vpUpstream struct {
	id    string
	srv   *httptest.Server
	mu    sync.Mutex
	log   []vpUpReq
	byRid map[string][]vpUpReq
	// response to give
	respStatus int
	respHeader http.Header
	respBody   []byte
}

func vpNewUpstream(id string) *vpUpstream {
	u := &vpUpstream{id: id, respStatus: 200, respBody: []byte("upstream:" + id), byRid: map[string][]vpUpReq{}}
	u.srv = httptest.NewServer(http.HandlerFunc(func(rw http.ResponseWriter, r *http.Request) {
		b, _ := io.ReadAll(r.Body)
		u.mu.Lock()
		rec := vpUpReq{Seq: atomic.AddInt64(&vpUpSeq, 1), Upstream: id, Method: r.Method, Target: r.RequestURI, Host: r.Host, Header: r.Header.Clone(), Body: b}
		u.log = append(u.log, rec)
		if rid := r.Header.Get("X-Vp-Rid"); rid != "" {
			u.byRid[rid] = append(u.byRid[rid], rec)
		}
		st, hd, body := u.respStatus, u.respHeader, u.respBody
		u.mu.Unlock()
		for k, vs := range hd {
			for _, v := range vs {
				rw.Header().Add(k, v)
			}
		}
		rw.Header().Set("X-Vp-Upstream", id)
		rw.WriteHeader(st)
		rw.Write(body)
	}))
	return u
}

func (u *vpUpstream) count() int {
	u.mu.Lock()
	defer u.mu.Unlock()
	return len(u.log)
}

func (u *vpUpstream) last() *vpUpReq {
	u.mu.Lock()
	defer u.mu.Unlock()
	if len(u.log) == 0 {
		return nil
	}
	r := u.log[len(u.log)-1]
	return &r
}

// ---------------------------------------------------------------------------------------------
// World

type vpWorld struct {
	cfg     *vpCfg
	proxy   *OAuthProxy
	opts    *options.Options
	idp     *vpIdP
	xidp    *vpIdP // extra JWT issuer (bearer only)
	xidp0   *vpIdP // another extra issuer (no discovery document)
	mr      *miniredis.Miniredis
	mrShared bool
	twin     *vpWorld // a second instance sharing store and provider (closed with this one)
	idpShared bool
	redis   *vpRedisHook
	ups     map[string]*vpUpstream
	upOrder []string
	tmp     string
	secret  string
	name    string
	emailsPath   string
	emailsDir    string // (symlinked layout) the directory holding data_vN and the "current" link
	htpasswdPath string
}

var vpSetupOnce sync.Once

func vpGlobalSetup() {
	vpSetupOnce.Do(func() {
		logger.SetOutput(io.Discard)
		logger.SetErrOutput(io.Discard)
		logger.SetStandardEnabled(false)
		logger.SetAuthEnabled(false)
		logger.SetReqEnabled(false)
	})
}

const vpDefaultSecret = "0123456789abcdefghijklmnopqrstuv" // 32 raw bytes

// sha1 htpasswd entries for fixed users: hpuser/hppass, hpadmin/adminpw
func vpHtpasswdLine(user, pw string) string {
	d := sha1.Sum([]byte(pw))
	return user + ":{SHA}" + base64.StdEncoding.EncodeToString(d[:])
}

func vpBool(p *bool, def bool) bool {
	if p == nil {
		return def
	}
	return *p
}

func vpNewWorld(cfg *vpCfg) (*vpWorld, error) {
	vpGlobalSetup()
	cfg = vpApplyPerturb(cfg)
	w := &vpWorld{cfg: cfg, ups: map[string]*vpUpstream{}}
	tmp, err := os.MkdirTemp(vpWorkDir(), "w")
	if err != nil {
		return nil, err
	}
	w.tmp = tmp
	if cfg.shareIdP != nil {
		w.idp, w.idpShared = cfg.shareIdP, true
	} else {
		w.idp = vpNewIdP("main")
		w.idp.advertise = cfg.AdvertisePKCE
	}
	if cfg.ExtraIssuer {
		w.xidp = vpNewIdP("extra")
	}
	if cfg.ExtraIssuer2 {
		w.xidp0 = vpNewIdP("extra0")
	}

	lo := options.NewLegacyOptions()
	lo.LegacyServer.HTTPAddress = "-" // no listener: requests go to ServeHTTP directly (or through httptest)
	lp := &lo.LegacyProvider
	lp.ProviderType = "oidc"
	lp.ClientID = vpClientID
	lp.ClientSecret = "vp-client-secret"
	lp.OIDCIssuerURL = w.idp.issuer()
	lp.InsecureOIDCSkipNonce = cfg.SkipNonce
	if cfg.PKCE != "" && cfg.PKCE != "none" {
		lp.CodeChallengeMethod = cfg.PKCE
	}
	lp.InsecureOIDCAllowUnverifiedEmail = cfg.AllowUnverifiedEmail
	if cfg.EmailClaim != "" {
		lp.OIDCEmailClaim = cfg.EmailClaim
	}
	if cfg.GroupsClaim != "" {
		lp.OIDCGroupsClaim = cfg.GroupsClaim
	}
	if cfg.UserClaim != "" {
		lp.UserIDClaim = cfg.UserClaim // deprecated alias of the e-mail claim
	}
	if len(cfg.AudienceClaims) > 0 {
		lp.OIDCAudienceClaims = cfg.AudienceClaims
	}
	if len(cfg.ExtraAudiences) > 0 {
		lp.OIDCExtraAudiences = cfg.ExtraAudiences
	}
	lp.SkipClaimsFromProfileURL = cfg.SkipClaimsProfile
	if cfg.Scope != "" {
		lp.Scope = cfg.Scope
	}
	lp.Prompt, lp.AcrValues, lp.ApprovalPrompt, lp.ProtectedResource = cfg.Prompt, cfg.AcrValues, cfg.ApprovalPrompt, cfg.Resource
	if cfg.ProviderDisplayName != "" {
		lp.ProviderName = cfg.ProviderDisplayName
	}
	lp.InsecureOIDCSkipIssuerVerification = cfg.SkipIssuerCheck
	lp.AllowedGroups = cfg.AllowedGroups
	if cfg.StaticKeys || cfg.JWKSURLOnly {
		lp.SkipOIDCDiscovery = true
		lp.LoginURL = w.idp.issuer() + "/authorize"
		lp.RedeemURL = w.idp.issuer() + "/token"
		if !cfg.NoProfileURL {
			lp.ProfileURL = w.idp.issuer() + "/userinfo"
		}
		if cfg.StaticKeys {
			p := filepath.Join(tmp, "idp.pem")
			if err := os.WriteFile(p, vpPublicKeyPEM(&vpKeyMain.PublicKey), 0o600); err != nil {
				return nil, err
			}
			lp.OIDCPublicKeyFiles = []string{p}
		} else {
			lp.OIDCJwksURL = w.idp.issuer() + "/keys"
		}
	}
	if cfg.NoProfileURL {
		w.idp.noUserinfo = true
	}
	if cfg.BackendLogout {
		lp.BackendLogoutURL = w.idp.issuer() + "/logout?id_token_hint={id_token}"
	}

	o := &lo.Options
	w.secret = cfg.CookieSecret
	if w.secret == "" {
		w.secret = vpDefaultSecret
	}
	o.Cookie.Secret = w.secret
	if cfg.CookieName != "" {
		o.Cookie.Name = cfg.CookieName
	}
	w.name = o.Cookie.Name
	if cfg.Expire != nil {
		o.Cookie.Expire = time.Duration(*cfg.Expire) * time.Second
	}
	o.Cookie.Refresh = time.Duration(cfg.Refresh) * time.Second
	o.Cookie.CSRFPerRequest = cfg.CSRFPerRequest
	if cfg.CSRFExpire > 0 {
		o.Cookie.CSRFExpire = time.Duration(cfg.CSRFExpire) * time.Second
	}
	o.Cookie.Secure = vpBool(cfg.CookieSecure, true)
	o.Cookie.HTTPOnly = vpBool(cfg.CookieHTTPOnly, true)
	o.Cookie.SameSite = cfg.CookieSameSite
	if cfg.CookiePath != "" {
		o.Cookie.Path = cfg.CookiePath
	}
	o.Cookie.Domains = append([]string(nil), cfg.CookieDomains...)
	o.Session.Cookie.Minimal = cfg.CookieMinimal
	o.EncodeState = cfg.EncodeState
	o.SkipProviderButton = cfg.SkipProviderButton
	o.ReverseProxy = cfg.ReverseProxy
	if cfg.ProxyPrefix != "" {
		o.ProxyPrefix = cfg.ProxyPrefix
	}
	if cfg.RealIPHeader != "" {
		o.RealClientIPHeader = cfg.RealIPHeader
	}
	o.TrustedIPs = cfg.TrustedIPs
	o.SkipAuthRoutes = cfg.SkipAuthRoutes
	o.SkipAuthRegex = cfg.SkipAuthRegex
	o.SkipAuthPreflight = cfg.Preflight
	if cfg.EmailDomains == nil {
		o.EmailDomains = []string{"*"}
	} else {
		o.EmailDomains = append([]string(nil), cfg.EmailDomains...)
	}
	if cfg.EmailsFile != nil {
		w.emailsPath = filepath.Join(tmp, "emails.txt")
		if cfg.EmailsViaSymlink {
			// a mounted volume in the Kubernetes style: the configured path is a symlink into a versioned data directory
			w.emailsDir = tmp
			os.MkdirAll(filepath.Join(tmp, "data_v1"), 0o755)
			os.Symlink("data_v1", filepath.Join(tmp, "current"))
			os.Symlink(filepath.Join("current", "emails.txt"), w.emailsPath)
		}
		target := w.emailsPath
		if cfg.EmailsViaSymlink {
			target = filepath.Join(tmp, "data_v1", "emails.txt")
		}
		if err := os.WriteFile(target, []byte(*cfg.EmailsFile), 0o600); err != nil {
			return nil, err
		}
		o.AuthenticatedEmailsFile = w.emailsPath
	}
	o.WhitelistDomains = cfg.Whitelist
	o.ForceJSONErrors = cfg.ForceJSON
	o.APIRoutes = cfg.APIRoutes
	o.SkipJwtBearerTokens = cfg.Bearer
	if cfg.ExtraIssuer {
		o.ExtraJwtIssuers = []string{w.xidp.issuer() + "=" + vpExtraAudience}
		if cfg.ExtraIssuer2 {
			// the discovery-less issuer is listed FIRST
			o.ExtraJwtIssuers = append([]string{w.xidp0.issuer() + "=" + vpExtraAudience}, o.ExtraJwtIssuers...)
		}
	}
	if cfg.Htpasswd {
		w.htpasswdPath = filepath.Join(tmp, "htpasswd")
		content := vpHtpasswdLine("hpuser", "hppass") + "\n" + vpHtpasswdLine("hpadmin", "adminpw") + "\n"
		if err := os.WriteFile(w.htpasswdPath, []byte(content), 0o600); err != nil {
			return nil, err
		}
		o.HtpasswdFile = w.htpasswdPath
		o.HtpasswdUserGroups = cfg.HtpasswdGroups
		o.Templates.DisplayLoginForm = cfg.DisplayLoginForm
	}
	if cfg.RedirectURL != "" {
		o.RawRedirectURL = cfg.RedirectURL
	}
	o.Templates.Banner, o.Templates.Footer = cfg.Banner, cfg.Footer
	if cfg.RequestIDHeader != "" {
		o.Logging.RequestIDHeader = cfg.RequestIDHeader
	}
	if cfg.PingPath != "" {
		o.PingPath = cfg.PingPath
	}
	if cfg.ReadyPath != "" {
		o.ReadyPath = cfg.ReadyPath
	}
	o.PingUserAgent = cfg.PingUserAgent
	o.GCPHealthChecks = cfg.GCPHealthChecks
	o.AllowQuerySemicolons = cfg.AllowQuerySemicolons
	o.RelativeRedirectURL = cfg.RelativeRedirectURL
	o.SignatureKey = cfg.SignatureKey
	o.SSLInsecureSkipVerify = cfg.SSLInsecure
	if cfg.UpstreamTimeoutSec > 0 {
		lo.LegacyUpstreams.Timeout = time.Duration(cfg.UpstreamTimeoutSec) * time.Second
	}
	if cfg.FlushIntervalMs > 0 {
		lo.LegacyUpstreams.FlushInterval = time.Duration(cfg.FlushIntervalMs) * time.Millisecond
	}
	if cfg.ProxyWebSocketsOff {
		lo.LegacyUpstreams.ProxyWebSockets = false
	}
	if cfg.Logging {
		logger.SetStandardEnabled(true)
		logger.SetAuthEnabled(true)
		logger.SetReqEnabled(true)
	}

	if cfg.ForceHTTPS {
		// force-https needs a TLS listener address; a throw-away certificate and an ephemeral port
		certDER, keyDER, err := util.GenerateCert("127.0.0.1")
		if err != nil {
			return nil, err
		}
		cp, kp := filepath.Join(tmp, "tls.crt"), filepath.Join(tmp, "tls.key")
		os.WriteFile(cp, pem.EncodeToMemory(&pem.Block{Type: "CERTIFICATE", Bytes: certDER}), 0o600)
		os.WriteFile(kp, pem.EncodeToMemory(&pem.Block{Type: "PRIVATE KEY", Bytes: keyDER}), 0o600)
		lo.LegacyServer.TLSCertFile, lo.LegacyServer.TLSKeyFile = cp, kp
		lo.LegacyServer.HTTPSAddress = "127.0.0.1:0"
		o.ForceHTTPS = true
	}

	// session store
	if cfg.Store == "redis" && cfg.shareRedis != nil {
		w.mrShared = true
		w.mr = cfg.shareRedis
		o.Session.Type = options.RedisSessionStoreType
		o.Session.Redis.ConnectionURL = "redis://" + w.mr.Addr()
		o.Session.Redis.Password = cfg.RedisPassword // the server requires what the instance that created it configured
	} else if cfg.Store == "redis" {
		mr := miniredis.NewMiniRedis()
		if err := mr.Start(); err != nil {
			return nil, err
		}
		w.mr = mr
		w.redis = vpInstallRedisHook(mr)
		o.Session.Type = options.RedisSessionStoreType
		o.Session.Redis.ConnectionURL = "redis://" + mr.Addr()
		if cfg.RedisPassword != "" {
			mr.RequireAuth(cfg.RedisPassword)
			o.Session.Redis.Password = cfg.RedisPassword
		}
	}
	if cfg.Store == "redis" && cfg.RedisIdleTimeoutSec > 0 {
		o.Session.Redis.IdleTimeout = cfg.RedisIdleTimeoutSec
	}

	// upstreams
	ups := cfg.Upstreams
	if len(ups) == 0 {
		ups = []vpUpstreamCfg{{ID: "root", Kind: "http", Path: "/"}}
	}
	structuredUp := false
	for _, u := range ups {
		if u.Rewrite != "" {
			structuredUp = true
		}
	}
	var legacyUps []string
	var upCfgs []options.Upstream
	for _, u := range ups {
		switch u.Kind {
		case "http", "":
			us := vpNewUpstream(u.ID)
			w.ups[u.ID] = us
			w.upOrder = append(w.upOrder, u.ID)
			legacyUps = append(legacyUps, us.srv.URL+u.Path)
			upCfgs = append(upCfgs, options.Upstream{ID: u.ID, Path: u.Path, URI: us.srv.URL, RewriteTarget: u.Rewrite})
		case "static":
			legacyUps = append(legacyUps, fmt.Sprintf("static://%d", u.Code))
			c := u.Code
			upCfgs = append(upCfgs, options.Upstream{ID: u.ID, Path: u.Path, Static: true, StaticCode: &c})
		case "file":
			dir := filepath.Join(tmp, "files_"+u.ID)
			os.MkdirAll(dir, 0o755)
			os.WriteFile(filepath.Join(dir, "index.html"), []byte("file:"+u.ID), 0o644)
			os.WriteFile(filepath.Join(dir, "a.txt"), []byte("file-a:"+u.ID), 0o644)
			legacyUps = append(legacyUps, "file://"+dir+"#"+u.Path)
			upCfgs = append(upCfgs, options.Upstream{ID: u.ID, Path: u.Path, URI: "file://" + dir})
		}
	}
	if structuredUp || cfg.ProxyRawPath {
		legacyUps = []string{"static://200"} // placeholder: the structured list replaces it below
	}
	lo.LegacyUpstreams.Upstreams = legacyUps
	if cfg.PassHost != nil {
		lo.LegacyUpstreams.PassHostHeader = *cfg.PassHost
	}

	// headers (legacy flags)
	lh := &lo.LegacyHeaders
	if cfg.Legacy != nil {
		set := func(k string, dst *bool) {
			if v, ok := cfg.Legacy[k]; ok {
				*dst = v
			}
		}
		set("passBasicAuth", &lh.PassBasicAuth)
		set("passAccessToken", &lh.PassAccessToken)
		set("passUserHeaders", &lh.PassUserHeaders)
		set("passAuthorization", &lh.PassAuthorization)
		set("setBasicAuth", &lh.SetBasicAuth)
		set("setXAuthRequest", &lh.SetXAuthRequest)
		set("setAuthorization", &lh.SetAuthorization)
		set("preferEmailToUser", &lh.PreferEmailToUser)
		set("skipAuthStripHeaders", &lh.SkipAuthStripHeaders)
	}
	lh.BasicAuthPassword = cfg.BasicPw

	opts, err := lo.ToOptions()
	if err != nil {
		return nil, fmt.Errorf("ToOptions: %v", err)
	}
	if structuredUp || cfg.ProxyRawPath {
		opts.UpstreamServers = options.UpstreamConfig{ProxyRawPath: cfg.ProxyRawPath, Upstreams: nil}
		for i := range upCfgs {
			u := upCfgs[i]
			if !u.Static {
				ph := lo.LegacyUpstreams.PassHostHeader
				u.PassHostHeader = &ph
			}
			opts.UpstreamServers.Upstreams = append(opts.UpstreamServers.Upstreams, u)
		}
	}
	if cfg.UnsetClaimNames {
		// a provider defined in the structured configuration without claim names: the legacy flag defaults are not applied there
		for i := range opts.Providers {
			opts.Providers[i].OIDCConfig.EmailClaim = ""
			opts.Providers[i].OIDCConfig.GroupsClaim = ""
		}
	}
	if cfg.LoginParams {
		consent, selAcc, hint := "consent", "select_account", `^[a-z]+@example\.com$`
		for i := range opts.Providers {
			opts.Providers[i].LoginURLParameters = []options.LoginURLParameter{
				{Name: "prompt", Default: []string{"login"}, Allow: []options.URLParameterRule{{Value: &consent}, {Value: &selAcc}}},
				{Name: "login_hint", Allow: []options.URLParameterRule{{Pattern: &hint}}},
				{Name: "organization", Default: []string{"myorg"}},
			}
		}
	}
	if cfg.Structured {
		opts.InjectRequestHeaders = vpHeaders(cfg.ReqHdrs)
		opts.InjectResponseHeaders = vpHeaders(cfg.RespHdrs)
	}
	if err := validation.Validate(opts); err != nil {
		return nil, fmt.Errorf("Validate: %v", err)
	}
	validator := NewValidator(opts.EmailDomains, opts.AuthenticatedEmailsFile)
	p, err := NewOAuthProxy(opts, validator)
	if err != nil {
		return nil, fmt.Errorf("NewOAuthProxy: %v", err)
	}
	w.proxy = p
	w.opts = opts
	return w, nil
}

// vpApplyPerturb merges the option settings named by VP_PERTURB (a JSON object of vpCfg fields, produced by TLC from
// spec/Perturb.tla) into a copy of the configuration: only fields the family left at their zero value are set (legacy header
// flags key by key), so the family's own dimensions always win. The requirement of the family is, by the frame condition
// stated in Perturb.tla, independent of these options.
var vpPerturbOnce sync.Once
var vpPerturbRaw map[string]json.RawMessage

func vpApplyPerturb(cfg *vpCfg) *vpCfg {
	vpPerturbOnce.Do(func() {
		if s := os.Getenv("VP_PERTURB"); s != "" {
			if err := json.Unmarshal([]byte(s), &vpPerturbRaw); err != nil {
				panic("VP_PERTURB: " + err.Error())
			}
		}
	})
	if len(vpPerturbRaw) == 0 {
		return cfg
	}
	c := *cfg
	if cfg.Legacy != nil {
		c.Legacy = map[string]bool{}
		for k, v := range cfg.Legacy {
			c.Legacy[k] = v
		}
	}
	var d vpCfg
	b, _ := json.Marshal(vpPerturbRaw)
	if err := json.Unmarshal(b, &d); err != nil {
		panic("VP_PERTURB: " + err.Error())
	}
	cv, dv := reflect.ValueOf(&c).Elem(), reflect.ValueOf(&d).Elem()
	for i := 0; i < cv.NumField(); i++ {
		f := cv.Type().Field(i)
		if !f.IsExported() || dv.Field(i).IsZero() {
			continue
		}
		if f.Name == "Legacy" {
			if c.Legacy == nil {
				c.Legacy = map[string]bool{}
			}
			for k, v := range d.Legacy {
				if _, ok := c.Legacy[k]; !ok {
					c.Legacy[k] = v
				}
			}
			continue
		}
		if cv.Field(i).IsZero() {
			cv.Field(i).Set(dv.Field(i))
		}
	}
	if c.Store != "redis" {
		c.RedisPassword, c.RedisIdleTimeoutSec = "", 0
	}
	return &c
}

func vpHeaders(hs []vpHeaderCfg) []options.Header {
	var out []options.Header
	for _, h := range hs {
		if h.NoValues {
			out = append(out, options.Header{Name: h.Name, PreserveRequestValue: h.Preserve})
			continue
		}
		hv := options.HeaderValue{}
		if h.Secret != "" {
			hv.SecretSource = &options.SecretSource{Value: []byte(h.Secret)}
		} else {
			cs := &options.ClaimSource{Claim: h.Claim, Prefix: h.Prefix}
			if h.BasicPw != "" {
				cs.BasicAuthPassword = &options.SecretSource{Value: []byte(h.BasicPw)}
			}
			hv.ClaimSource = cs
		}
		// merge values of repeated names into one header entry (as the options do)
		merged := false
		for i := range out {
			if out[i].Name == h.Name {
				out[i].Values = append(out[i].Values, hv)
				merged = true
			}
		}
		if !merged {
			out = append(out, options.Header{Name: h.Name, PreserveRequestValue: h.Preserve, Values: []options.HeaderValue{hv}})
		}
	}
	return out
}

func (w *vpWorld) close() {
	if w.twin != nil {
		w.twin.close()
		w.twin = nil
	}
	if w.idp != nil && !w.idpShared {
		w.idp.close()
	}
	if w.xidp0 != nil {
		w.xidp0.close()
	}
	if w.xidp != nil {
		w.xidp.close()
	}
	for _, u := range w.ups {
		u.srv.Close()
	}
	if w.mr != nil && !w.mrShared {
		w.mr.Close()
	}
	if w.tmp != "" {
		os.RemoveAll(w.tmp)
	}
}

func (w *vpWorld) upstreamTotal() int {
	n := 0
	for _, u := range w.ups {
		n += u.count()
	}
	return n
}

func vpWorkDir() string {
	d := os.Getenv("VP_WORK")
	if d == "" {
		d = os.TempDir()
	}
	os.MkdirAll(d, 0o755)
	return d
}

// ---------------------------------------------------------------------------------------------
// browser cookie jar

type vpCookie struct {
	Name, Value, Domain, Path string
	Seq                       int // insertion order
}

type vpJar struct {
	c   map[string]*vpCookie // key name|domain|path
	seq int
	// everything the browser ever held (for replay of old cookies)
	hist []vpCookie
}

func vpNewJar() *vpJar { return &vpJar{c: map[string]*vpCookie{}} }

func (j *vpJar) apply(resp *http.Response) {
	for _, c := range resp.Cookies() {
		j.applyCookie(c)
	}
}

func (j *vpJar) applyCookie(c *http.Cookie) {
	key := c.Name + "|" + c.Domain + "|" + c.Path
	if c.MaxAge < 0 || (!c.Expires.IsZero() && c.Expires.Before(time.Now())) {
		delete(j.c, key)
		return
	}
	j.seq++
	nc := &vpCookie{Name: c.Name, Value: c.Value, Domain: c.Domain, Path: c.Path, Seq: j.seq}
	if old, ok := j.c[key]; ok {
		nc.Seq = old.Seq // browsers keep creation time on update
	}
	j.c[key] = nc
	j.hist = append(j.hist, *nc)
}

func (j *vpJar) list() []*vpCookie {
	var out []*vpCookie
	for _, c := range j.c {
		out = append(out, c)
	}
	sort.Slice(out, func(a, b int) bool {
		if len(out[a].Path) != len(out[b].Path) {
			return len(out[a].Path) > len(out[b].Path)
		}
		return out[a].Seq < out[b].Seq
	})
	return out
}

func (j *vpJar) header() string {
	var parts []string
	for _, c := range j.list() {
		parts = append(parts, c.Name+"="+c.Value)
	}
	return strings.Join(parts, "; ")
}

func (j *vpJar) get(name string) *vpCookie {
	for _, c := range j.c {
		if c.Name == name {
			return c
		}
	}
	return nil
}

func (j *vpJar) names() []string {
	var out []string
	for _, c := range j.list() {
		out = append(out, c.Name)
	}
	sort.Strings(out)
	return out
}

func (j *vpJar) clone() *vpJar {
	n := vpNewJar()
	n.seq = j.seq
	for k, c := range j.c {
		cc := *c
		n.c[k] = &cc
	}
	n.hist = append(n.hist, j.hist...)
	return n
}

// ---------------------------------------------------------------------------------------------
// requests and responses

type vpReq struct {
	Method     string
	Target     string // request-target: path?query
	Host       string
	Scheme     string // "" => http (plain), "https" sets req.TLS-like URL scheme only
	RemoteAddr string
	Header     [][2]string // ordered, repeated allowed, names sent verbatim (canonicalised by net/http on direct call)
	Cookie     string      // raw Cookie header ("" => none)
	Body       string
	Form       bool // body is a form
	Chunked    bool // send the body with Transfer-Encoding: chunked (no Content-Length)
	TLS        bool // the request arrived over TLS (origin-form request line, req.TLS set)
}

type vpResp struct {
	Status   int
	Header   http.Header
	Body     []byte
	Cookies  []*http.Cookie
	Panic    string
	UpHits   int // upstream requests caused by this request
	UpLast   *vpUpReq
	Location string
}

const vpHost = "app.example.com"

// do executes one request directly against the proxy's ServeHTTP under recover().
func (w *vpWorld) do(r vpReq) (out *vpResp) {
	if r.Method == "" {
		r.Method = "GET"
	}
	if r.Host == "" {
		r.Host = vpHost
	}
	if r.RemoteAddr == "" {
		r.RemoteAddr = "192.0.2.10:40000"
	}
	// The request is built by the same parser the HTTP server uses (http.ReadRequest on the raw
	// bytes), so header-name canonicalisation, repeated headers and odd targets are handled exactly
	// as for a request arriving on the wire.
	var sb strings.Builder
	target := r.Target
	if target == "" {
		target = "/"
	}
	sb.WriteString(r.Method + " " + target + " HTTP/1.1\r\n")
	sb.WriteString("Host: " + r.Host + "\r\n")
	// a per-request id lets the recording upstreams attribute what they receive to this request even when
	// other requests run concurrently against the same proxy
	rid := fmt.Sprintf("r%d", atomic.AddInt64(&vpRidSeq, 1))
	sb.WriteString("X-Vp-Rid: " + rid + "\r\n")
	for _, h := range r.Header {
		sb.WriteString(h[0] + ": " + h[1] + "\r\n")
	}
	if r.Form {
		sb.WriteString("Content-Type: application/x-www-form-urlencoded\r\n")
	}
	if r.Cookie != "" {
		sb.WriteString("Cookie: " + r.Cookie + "\r\n")
	}
	if r.Body != "" && r.Chunked {
		sb.WriteString("Transfer-Encoding: chunked\r\n\r\n")
		for rest := r.Body; len(rest) > 0; {
			n := 8000
			if n > len(rest) {
				n = len(rest)
			}
			sb.WriteString(fmt.Sprintf("%x\r\n", n))
			sb.WriteString(rest[:n])
			sb.WriteString("\r\n")
			rest = rest[n:]
		}
		sb.WriteString("0\r\n\r\n")
	} else {
		if r.Body != "" {
			sb.WriteString(fmt.Sprintf("Content-Length: %d\r\n", len(r.Body)))
		}
		sb.WriteString("\r\n")
		sb.WriteString(r.Body)
	}
	req, err := http.ReadRequest(bufioReader(sb.String()))
	if err != nil {
		return &vpResp{Status: -1, Header: http.Header{}, Body: []byte("vp: cannot build request: " + err.Error())}
	}
	req.RemoteAddr = r.RemoteAddr
	if r.Scheme != "" {
		req.URL.Scheme = r.Scheme
	}
	if r.TLS {
		req.TLS = &tls.ConnectionState{Version: tls.VersionTLS13, HandshakeComplete: true}
	}
	before := w.upstreamTotal()
	rec := httptest.NewRecorder()
	out = &vpResp{}
	func() {
		defer func() {
			if e := recover(); e != nil {
				out.Panic = fmt.Sprint(e)
			}
		}()
		w.proxy.ServeHTTP(rec, req)
	}()
	res := rec.Result()
	out.Status = res.StatusCode
	out.Header = res.Header
	out.Body, _ = io.ReadAll(res.Body)
	out.Cookies = res.Cookies()
	out.Location = res.Header.Get("Location")
	_ = before
	for _, id := range w.upOrder {
		u := w.ups[id]
		u.mu.Lock()
		for _, rec := range u.byRid[rid] {
			out.UpHits++
			rc := rec
			if out.UpLast == nil || rc.Seq > out.UpLast.Seq {
				out.UpLast = &rc
			}
		}
		delete(u.byRid, rid)
		u.mu.Unlock()
	}
	if vpMon != nil {
		vpMon.observe(w, req, r, out)
	}
	return out
}

var vpRidSeq int64

var vpUpSeq int64

// lastUpstreamReq returns the most recent request any upstream of this world received.
func (w *vpWorld) lastUpstreamReq() *vpUpReq {
	var best *vpUpReq
	for _, id := range w.upOrder {
		if l := w.ups[id].last(); l != nil && (best == nil || l.Seq > best.Seq) {
			best = l
		}
	}
	return best
}

// ---------------------------------------------------------------------------------------------
// projection helpers

var vpNonceSeq uint64

func vpRandHex(n int) string {
	b := make([]byte, n)
	rand.Read(b)
	return fmt.Sprintf("%x", b)
}

func vpSeqID() uint64 { return atomic.AddUint64(&vpNonceSeq, 1) }

var vpSignInMarker = regexp.MustCompile(`(?i)sign in with|<form method="GET" action="[^"]*/start"`)

// vpClassify projects a response to the abstract response class of the spec.
func (w *vpWorld) classify(r *vpResp) string {
	switch {
	case r.Panic != "":
		return "panic"
	case r.UpHits > 0:
		return "upstream"
	case r.Status == 202:
		return "accepted"
	case (r.Status == 200 || r.Status == 401 || r.Status == 403) && vpSignInMarker.Match(r.Body):
		return "signin" // the sign-in page, whatever status it is served with
	case r.Status == 302 || r.Status == 301 || r.Status == 307 || r.Status == 308:
		if strings.HasPrefix(r.Location, w.idp.issuer()+"/authorize") {
			return "idp_redirect"
		}
		return "redirect"
	case r.Status == 401:
		return "401"
	case r.Status == 403:
		if vpSignInMarker.Match(r.Body) {
			return "signin"
		}
		return "403"
	case r.Status == 200:
		return "200"
	case r.Status >= 500:
		return "5xx"
	case r.Status >= 400:
		return "4xx"
	}
	return fmt.Sprintf("%d", r.Status)
}

// sessionCookieEffect: "set" if a Set-Cookie for the session name (or parts) with a value, "cleared" if only deletions, "" none.
func (w *vpWorld) sessionCookieEffect(r *vpResp) string {
	set, cleared := false, false
	for _, c := range r.Cookies {
		if w.isSessionCookieName(c.Name) {
			if c.Value != "" && c.MaxAge >= 0 {
				set = true
			} else {
				cleared = true
			}
		}
	}
	switch {
	case set:
		return "set"
	case cleared:
		return "cleared"
	}
	return "none"
}

func (w *vpWorld) isSessionCookieName(n string) bool {
	if n == w.name {
		return true
	}
	if strings.HasPrefix(n, w.name+"_") {
		rest := n[len(w.name)+1:]
		if rest == "" {
			return false
		}
		for _, ch := range rest {
			if ch < '0' || ch > '9' {
				return false
			}
		}
		return true
	}
	return false
}

func (w *vpWorld) isCSRFCookieName(n string) bool {
	return strings.HasPrefix(n, w.name) && strings.HasSuffix(n, "_csrf")
}

func vpJSON(v interface{}) string {
	b, _ := json.Marshal(v)
	return string(b)
}

func vpMustParseURL(s string) *url.URL {
	u, err := url.Parse(s)
	if err != nil {
		return &url.URL{}
	}
	return u
}

func vpFreePort() int {
	l, err := net.Listen("tcp", "127.0.0.1:0")
	if err != nil {
		return 0
	}
	defer l.Close()
	return l.Addr().(*net.TCPAddr).Port
}
