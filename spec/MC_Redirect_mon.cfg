CONSTANTS
  MaxLen = 2
INIT Init
NEXT Next
INVARIANTS C06_NoOpenRedirect EmitCase
CHECK_DEADLOCK FALSE
