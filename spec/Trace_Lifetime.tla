---------------------------- MODULE Trace_Lifetime ----------------------------
(* Judge for C09: validates traces recorded from the real proxy on the real-time  *)
(* grid.  One event per step; many behaviours are concatenated (a "login" event    *)
(* resets the monitor state).  The monitor keeps the tick of the last issue or     *)
(* OBSERVED refresh and evaluates the property on every event.                     *)
EXTENDS Integers, Sequences, TLC, Json

Trace == ndJsonDeserialize("trace.ndjson")

VARIABLES i,        \* next event
          stamp,    \* tick of the last issue / observed refresh of the current behaviour
          last,     \* the event just consumed (with the pre-state stamp)
          pre
vars == <<i, stamp, last, pre>>

NoEvent == [kind |-> "none"]
Init == i = 1 /\ stamp = 0 /\ last = NoEvent /\ pre = 0

Consume ==
    /\ i <= Len(Trace)
    /\ LET e == Trace[i] IN
       /\ last' = e
       /\ pre' = stamp
       /\ stamp' = IF e.kind = "login" THEN e.tick
                   ELSE IF e.kind = "request" /\ e.refreshed THEN e.tick
                   ELSE stamp
    /\ i' = i + 1
Next == Consume
Spec == Init /\ [][Next]_vars

\* ---- the property, on observed events -----------------------------------------------------
\* a session (or its refresh) is honoured only strictly inside the lifetime
Mon_Lifetime == (last.kind = "request" /\ ~last.late /\ (last.served \/ last.refreshed)) => last.tick - pre < last.E
\* a credential stamped more than five minutes in the future is rejected
Mon_Future   == (last.kind = "forged" /\ last.offset > 300) => ~last.served
\* the browser is told the configured lifetime, the server-side entry is stored with it
Mon_MaxAge   == (last.kind \in {"login", "request"} /\ last.maxAge # -1) => last.maxAge = last.E
Mon_TTL      == (last.kind \in {"login", "request"} /\ last.ttl # -1) => last.ttl = last.E

\* acceptance: the whole trace was consumed
TraceAccepted == TLCGet("stats").diameter - 1 = Len(Trace)
=============================================================================
