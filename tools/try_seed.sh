#!/bin/bash
# usage: tools/try_seed.sh <patch.diff> <property> [tier]   -- applies the patch to /repo, runs the check, always undoes it
set -u
patch="$1"; prop="$2"; tier="${3:-quick}"
cd /repo || exit 2
if [ -n "$(git status --porcelain)" ]; then echo "repo not clean"; exit 2; fi
git apply "$patch" || { echo "patch does not apply"; exit 2; }
mkdir -p /verif/.work/seed_ev /verif/.work/seed_rp
cd /verif && VERIF_EVIDENCE_DIR=/verif/.work/seed_ev VERIF_REPLAY_DIR=/verif/.work/seed_rp ./check "$prop" --tier "$tier" 2>&1 | tail -6
rc=${PIPESTATUS[0]}
git -C /repo checkout -- . && git -C /repo clean -fdq
echo "seed check rc=$rc"
exit $rc
