SPECIFICATION Spec
INVARIANTS Mon_NoStaleServe Mon_NewTokens Mon_Late Mon_OneRefresh Mon_FailClosed Mon_NoPanic
POSTCONDITION TraceAccepted
CHECK_DEADLOCK FALSE
