SPECIFICATION Spec
INVARIANTS Mon_Explainable
POSTCONDITION TraceAccepted
CHECK_DEADLOCK FALSE
