CONSTANTS
  MaxOps = 3
  MaxParts = 3
  Stores = {"cookie", "redis"}
  NameLens = {13, 100, 250}
  StaleCleanup = TRUE
INIT Init
NEXT Next
INVARIANTS TypeOK C10_RoundTrip EmitCase
CHECK_DEADLOCK FALSE
