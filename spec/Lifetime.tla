------------------------------- MODULE Lifetime -------------------------------
(* C09: sessions are never honoured past the configured lifetime.                *)
(* Time is a tick counter (1 tick = 1 s; the harness runs tick k at T0+k+0.5 s,    *)
(* cookie stamps are whole seconds, so "age" is an integer at every step).         *)
(* The model predicts when the code refreshes and serves; the verdict is given by  *)
(* Trace_Lifetime on what the real code did (a refresh at a different tick than     *)
(* predicted is drift, not a violation).                                           *)
EXTENDS Integers, Sequences, FiniteSets, TLC, Json, CSV

CONSTANTS Grids,      \* set of [E, R] : cookie-expire, cookie-refresh in ticks
          Modes,      \* IdP behaviour on refresh: "ok" | "norefresh" | "failvalid"
          Stores, MaxReqs, ExpireCheck   \* ExpireCheck = FALSE: named deviation "lifetime not enforced" (selftest)

Vocab == [ atoms |-> [ none |-> "" ] ]

VARIABLES now, stamp, reqs, hist, cfg
vars == <<now, stamp, reqs, hist, cfg>>

Init == /\ now = 0 /\ stamp = 0 /\ reqs = 0
        /\ cfg \in [grid : Grids, mode : Modes, store : Stores]
        /\ hist = <<[a |-> "login", args |-> [tick |-> 0], impl |-> [served |-> TRUE, maxAge |-> cfg.grid.E]]>>

E == cfg.grid.E
R == cfg.grid.R
Tick == /\ now < E + 2 /\ now' = now + 1 /\ UNCHANGED <<stamp, reqs, hist, cfg>>

Age == now - stamp
Valid == IF ExpireCheck THEN Age < E ELSE TRUE
NeedsRefresh == R > 0 /\ Age > R
Refreshes == Valid /\ NeedsRefresh /\ cfg.mode = "ok"
\* mode "form": the session comes from the htpasswd sign-in form - it holds no tokens, no provider can refresh or re-validate it: once it is
\* due for a refresh it is not honoured any more (and in no case past the lifetime counted from the sign-in)
Serves == IF cfg.mode = "form" THEN Valid /\ ~NeedsRefresh
          ELSE Valid          \* every other mode lets a valid session through (refresh ok, unsupported, or failed + validation ok)

Request ==
    /\ now >= 1 /\ reqs < MaxReqs
    /\ (Len(hist) = 0 \/ hist[Len(hist)].args.tick < now)          \* one step per tick
    /\ reqs' = reqs + 1
    /\ stamp' = IF Refreshes THEN now ELSE stamp
    /\ hist' = Append(hist, [a |-> "request", args |-> [tick |-> now], impl |-> [served |-> Serves, refreshed |-> Refreshes], age |-> Age])
    /\ UNCHANGED <<now, cfg>>
\* a correctly signed credential stamped in the future: accepted up to +5 min, rejected beyond
Forged(off) ==
    /\ now = 1 /\ hist[Len(hist)].args.tick < now
    /\ hist' = Append(hist, [a |-> "forged", args |-> [tick |-> now, offset |-> off], impl |-> [served |-> off < 300]])
    /\ UNCHANGED <<now, stamp, reqs, cfg>>

Next == Tick \/ Request \/ (\E off \in {297, 303} : Forged(off))

\* model-level statement of the property
Last == hist[Len(hist)]
C09_Lifetime == (Last.a = "request" /\ Last.impl.served) => Last.age < E
C09_Future   == (Last.a = "forged" /\ Last.args.offset > 300) => ~Last.impl.served

CaseRec == [fam |-> "lifetime", cfg |-> cfg, in |-> [cfg |-> cfg], steps |-> hist]
EmitVocab == JsonSerialize("vocab.json", Vocab)
EmitCase  == (now = E + 2) => CSVWrite("%1$s", <<ToJson(CaseRec)>>, "cases.ndjson")
=============================================================================
