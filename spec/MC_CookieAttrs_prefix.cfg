CONSTANTS
  Tier = "thorough"
INIT Init
NEXT Next
INVARIANTS PreFixWouldPass
CHECK_DEADLOCK FALSE
