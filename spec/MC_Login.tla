------------------------------ MODULE MC_Login ------------------------------
EXTENDS Login
ASSUME EmitVocab
O(pr, es, pk, sn, idn) == [perReq |-> pr, encodeState |-> es, pkce |-> pk, skipNonce |-> sn, idpNonce |-> idn]
QuickOptions == { O(TRUE, FALSE, "S256", FALSE, "echo"), O(FALSE, TRUE, "none", FALSE, "echo"),
                  O(TRUE, TRUE, "none", TRUE, "echo"), O(FALSE, FALSE, "plain", FALSE, "echo"),
                  O(TRUE, FALSE, "none", FALSE, "other"), O(FALSE, FALSE, "S256", FALSE, "absent"),
                  O(TRUE, FALSE, "none", FALSE, "empty"), O(TRUE, FALSE, "none", FALSE, "raw"), O(FALSE, FALSE, "none", TRUE, "absent") }
AllOptions == [perReq : BOOLEAN, encodeState : BOOLEAN, pkce : {"none", "S256", "plain"}, skipNonce : BOOLEAN,
               idpNonce : {"echo", "other", "empty", "absent", "raw"}]
=============================================================================
