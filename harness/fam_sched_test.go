//go:build verif

package main

import (
	"sync/atomic"
	"encoding/base64"
	"fmt"
	mrand "math/rand"
	"net/http"
	"net/http/httptest"
	"strconv"
	"strings"
	"sync"
	"testing"
	"time"

	sessionsapi "github.com/oauth2-proxy/oauth2-proxy/v7/pkg/apis/sessions"
	"github.com/oauth2-proxy/oauth2-proxy/v7/pkg/encryption"
)

// ---------------------------------------------------------------------------------------------
// helpers: which token generation does a value stand for (model generation 0 = the login's tokens)

func vpGenOfToken(tok string) int {
	// at-<user>-<gen>-<rand> / rt-<user>-<gen>-<rand>
	p := strings.Split(tok, "-")
	if len(p) < 4 {
		return -1
	}
	g, err := strconv.Atoi(p[len(p)-2])
	if err != nil {
		return -1
	}
	return g - 1
}

// vpStoredGen decrypts a stored Redis value with the secret held in the ticket cookie.
func vpStoredGen(ticketCookieValue string, stored []byte) int {
	parts := strings.Split(ticketCookieValue, "|")
	if len(parts) != 3 {
		return -1
	}
	raw, err := base64.URLEncoding.DecodeString(parts[0])
	if err != nil {
		return -1
	}
	tp := strings.Split(string(raw), ".")
	if len(tp) != 3 {
		return -1
	}
	secret, err := base64.RawURLEncoding.DecodeString(tp[2])
	if err != nil {
		return -1
	}
	c, err := encryption.NewGCMCipher(secret)
	if err != nil {
		return -1
	}
	s, err := sessionsapi.DecodeSessionState(stored, c, false)
	if err != nil {
		return -1
	}
	return vpGenOfToken(s.AccessToken)
}

func vpBulkOf(raw []byte) ([]byte, bool) {
	if len(raw) == 0 || raw[0] != '$' {
		return nil, false
	}
	i := strings.Index(string(raw), "\r\n")
	if i < 0 {
		return nil, false
	}
	n, err := strconv.Atoi(string(raw[1:i]))
	if err != nil || n < 0 || len(raw) < i+2+n {
		return nil, false
	}
	return raw[i+2 : i+2+n], true
}

// ---------------------------------------------------------------------------------------------
// recording of the totally ordered trace of one behaviour

type vpTraceRec struct {
	mu     sync.Mutex
	events []map[string]interface{}
}

func (t *vpTraceRec) add(ev map[string]interface{}) {
	t.mu.Lock()
	ev["i"] = len(t.events) + 1
	t.events = append(t.events, ev)
	t.mu.Unlock()
}

type vpGateEv struct {
	op      string
	release chan struct{}
}

type vpSched struct {
	w        *vpWorld
	arrivals chan *vpGateEv
	done     chan int
	enabled  bool
	free     bool
	key      string
	mu       sync.Mutex
}

// refreshWorld builds a Redis-backed world whose upstream sees the access token, with scripts warmed up.
func vpRefreshWorld() (*vpWorld, error) {
	w, err := vpNewWorld(&vpCfg{Store: "redis", Refresh: 3600, Legacy: map[string]bool{"passAccessToken": true, "setXAuthRequest": true}})
	if err != nil {
		return nil, err
	}
	// warm-up: one complete refresh cycle loads the lock scripts (first use falls back from EVALSHA to EVAL)
	j := vpNewJar()
	if _, err := w.login(j, "alice", ""); err != nil {
		return nil, err
	}
	if err := w.ageSession(j, 2*time.Hour, vpReq{}); err != nil {
		return nil, err
	}
	w.get(j, "/warm")
	// a second proxy instance on the same Redis and provider (horizontal deployment): every other request of a behaviour goes to it
	tw, err := vpNewWorld(&vpCfg{Store: "redis", Refresh: 3600, Legacy: map[string]bool{"passAccessToken": true, "setXAuthRequest": true}, shareRedis: w.mr, shareIdP: w.idp})
	if err != nil {
		return nil, err
	}
	w.twin = tw
	return w, nil
}

// ageSessionExpired back-dates the session and (optionally) marks it expired, so that validation fails.
func (w *vpWorld) ageSessionOpt(j *vpJar, d time.Duration, expire bool) error {
	raw := "GET / HTTP/1.1\r\nHost: " + vpHost + "\r\nCookie: " + j.header() + "\r\n\r\n"
	req, err := http.ReadRequest(bufioReader(raw))
	if err != nil {
		return err
	}
	req = w.storeReq(j)
	s, err := w.proxy.sessionStore.Load(req)
	if err != nil {
		return err
	}
	t := time.Now().Add(-d)
	s.CreatedAt = &t
	if expire {
		e := time.Now().Add(-time.Minute)
		s.ExpiresOn = &e
	}
	rec := httptest.NewRecorder()
	if err := w.proxy.sessionStore.Save(rec, req, s); err != nil {
		return err
	}
	for _, c := range rec.Result().Cookies() {
		j.applyCookie(c)
	}
	return nil
}

var vpOpOf = map[string]string{"load": "get", "reload": "get", "obtain_ok": "lock_obtain", "obtain_fail": "lock_obtain",
	"refresh_ok": "token_refresh", "refresh_fail": "token_refresh", "save": "set", "release": "lock_release", "clear": "del", "delete": "del"}

// runBehaviour executes one behaviour (scheduled when steps != nil, free-running otherwise) and returns its trace.
func vpRunRefreshBehaviour(w *vpWorld, mode string, stale bool, n int, steps []vpStep, lockExpires bool, signouts ...int) (events []map[string]interface{}, diverged string, err error) {
	isSignOut := map[int]bool{}
	for _, r := range signouts {
		isSignOut[r] = true
	}
	var signedOut int32
	idp := w.idp
	idp.mu.Lock()
	idp.rotate, idp.refreshMode = true, "ok"
	switch mode {
	case "norotate":
		idp.rotate = false
	case "failvalid", "failinvalid":
		idp.refreshMode = "fail"
	}
	idp.mu.Unlock()
	jar := vpNewJar()
	if _, err := w.login(jar, "alice", ""); err != nil {
		return nil, "", err
	}
	tk := jar.get(w.name)
	if tk == nil {
		return nil, "", fmt.Errorf("no ticket cookie")
	}
	key := vpTicketID(tk.Value)
	if stale {
		if err := w.ageSessionOpt(jar, 2*time.Hour, mode == "failinvalid"); err != nil {
			return nil, "", err
		}
		tk = jar.get(w.name)
	}
	cookie := jar.header()
	tr := &vpTraceRec{}
	sc := &vpSched{w: w, arrivals: make(chan *vpGateEv, 64), done: make(chan int, 64), key: key, free: steps == nil}
	// observers: executed order of store operations, IdP refresh calls
	w.redis.observer = func(c *vpRedisCmd, reply []byte) {
		if c.Key != key && c.Key != key+".lock" {
			return
		}
		ev := map[string]interface{}{"kind": c.Op, "gen": -1, "ok": true, "r": 0}
		switch c.Op {
		case "set":
			if len(c.Args) >= 2 {
				ev["gen"] = vpStoredGen(tk.Value, []byte(c.Args[1]))
			}
		case "get":
			if b, ok := vpBulkOf(reply); ok {
				ev["gen"] = vpStoredGen(tk.Value, b)
			} else {
				ev["ok"] = false
			}
		case "lock_obtain":
			ev["ok"] = strings.HasPrefix(string(reply), "+OK") || strings.HasPrefix(string(reply), "$2\r\nOK")
		}
		tr.add(ev)
	}
	w.redis.gate = func(c *vpRedisCmd) {
		if sc.free || (c.Key != key && c.Key != key+".lock") {
			return
		}
		ev := &vpGateEv{op: c.Op, release: make(chan struct{})}
		sc.arrivals <- ev
		<-ev.release
	}
	idp.mu.Lock()
	idp.gate = func(kind string, form map[string][]string) {}
	idp.mu.Unlock()
	idp.gate2 = func(kind string, rt string) {
		if kind != "token_refresh" || sc.free {
			return
		}
		ev := &vpGateEv{op: "token_refresh", release: make(chan struct{})}
		sc.arrivals <- ev
		<-ev.release
	}
	idp.onRefresh = func(ok bool, rt string) {
		tr.add(map[string]interface{}{"kind": "refresh", "ok": ok, "gen": vpGenOfToken(rt), "r": 0})
	}
	defer func() {
		w.redis.observer, w.redis.gate = nil, nil
		idp.gate2, idp.onRefresh = nil, nil
	}()

	results := make([]*vpResp, n+1)
	behaviourNo := atomic.AddInt64(&vpBehaviourSeq, 1)
	start := func(r int) {
		go func() {
			inst := w
			if w.twin != nil && r%2 == 0 {
				inst = w.twin
			}
			// the requests also alternate between a proxied path and the auth-only endpoint (same session loader, other handler)
			authonly := (r+int(behaviourNo))%2 == 0
			target := "/private"
			if authonly {
				target = w.prefix() + "/auth"
			}
			if isSignOut[r] {
				// this request is a sign-out: same session loader, then the stored session is deleted
				resp := inst.do(vpReq{Target: w.prefix() + "/sign_out", Cookie: cookie})
				results[r] = resp
				if resp.Status/100 == 3 {
					atomic.StoreInt32(&signedOut, 1)
				}
				tr.add(map[string]interface{}{"kind": "signout", "r": r, "ok": resp.Status/100 == 3, "gen": -1, "status": resp.Status, "panic": resp.Panic != ""})
				sc.done <- r
				return
			}
			// a third of the proxied requests has the shape of a WebSocket handshake (Upgrade / Connection headers): the session loader treats
			// every request alike
			var shape [][2]string
			if !authonly && (r+int(behaviourNo))%3 == 0 {
				shape = [][2]string{{"Connection", "keep-alive, Upgrade"}, {"Upgrade", "websocket"}, {"Sec-WebSocket-Version", "13"}, {"Sec-WebSocket-Key", "dGhlIHNhbXBsZSBub25jZQ=="}}
			}
			resp := inst.do(vpReq{Target: target, Cookie: cookie, Header: shape})
			results[r] = resp
			gen := -1
			served := resp.UpHits > 0
			if authonly {
				served = resp.Status == 202
				if served {
					gen = vpGenOfToken(resp.Header.Get("X-Auth-Request-Access-Token"))
				}
			} else if resp.UpLast != nil {
				gen = vpGenOfToken(resp.UpLast.Header.Get("X-Forwarded-Access-Token"))
			}
			tr.add(map[string]interface{}{"kind": "done", "r": r, "ok": served, "gen": gen, "status": resp.Status,
				"cleared": w.sessionCookieEffect(resp) == "cleared", "panic": resp.Panic != ""})
			sc.done <- r
		}()
	}
	finished := map[int]bool{}
	if steps == nil {
		// free-running: all at once
		for r := 1; r <= n; r++ {
			start(r)
		}
		for len(finished) < n {
			select {
			case r := <-sc.done:
				finished[r] = true
			case <-time.After(15 * time.Second):
				return tr.events, "", fmt.Errorf("free-running requests did not finish")
			}
		}
	} else {
		pending := map[int]*vpGateEv{}
		started := map[int]bool{}
		waitFor := func(r int) error {
			select {
			case ev := <-sc.arrivals:
				pending[r] = ev
			case d := <-sc.done:
				finished[d] = true
			case <-time.After(8 * time.Second):
				return fmt.Errorf("request %d neither reached a gate nor finished", r)
			}
			return nil
		}
		for si, st := range steps {
			act := vpS(map[string]interface{}{"a": st.A}, "a")
			r := vpI(st.Args, "r")
			if act == "" {
				act = st.A
			}
			if act == "lock_expire" {
				w.mr.FastForward(3 * time.Second)
				tr.add(map[string]interface{}{"kind": "lock_expire", "r": 0, "gen": -1, "ok": true})
				continue
			}
			if !started[r] {
				started[r] = true
				start(r)
				if err := waitFor(r); err != nil {
					diverged = fmt.Sprintf("step %d: %v", si, err)
					break
				}
			}
			if finished[r] {
				continue
			}
			ev := pending[r]
			want := vpOpOf[act]
			if ev == nil || ev.op != want {
				got := "finished"
				if ev != nil {
					got = ev.op
				}
				if diverged == "" {
					diverged = fmt.Sprintf("step %d (%s of request %d): model expects %s, request is at %s", si, act, r, want, got)
				}
				// keep following the schedule's ORDER OF REQUESTS even though the operations differ from the model:
				// the interleaving structure is what exposes concurrency defects; the judge decides on the recorded trace
				if ev == nil {
					continue
				}
			}
			delete(pending, r)
			close(ev.release)
			if err := waitFor(r); err != nil {
				if diverged == "" {
					diverged = fmt.Sprintf("step %d: %v", si, err)
				}
				break
			}
		}
		// let everything that is still blocked run to completion (also after a divergence), start what never started
		sc.free = true
		for r, ev := range pending {
			close(ev.release)
			delete(pending, r)
		}
		for r := 1; r <= n; r++ {
			if !started[r] {
				started[r] = true
				start(r)
			}
		}
		deadline := time.After(15 * time.Second)
		for len(finished) < n {
			select {
			case ev := <-sc.arrivals:
				close(ev.release)
			case r := <-sc.done:
				finished[r] = true
			case <-deadline:
				return tr.events, diverged, fmt.Errorf("requests did not finish")
			}
		}
	}
	// a later request of the same browser: with the cookie the browser now holds (set by whoever refreshed) - or the old one
	w.redis.gate = nil
	idp.gate2 = nil
	late := w.do(vpReq{Target: "/private", Cookie: cookie})
	gen := -1
	if late.UpLast != nil {
		gen = vpGenOfToken(late.UpLast.Header.Get("X-Forwarded-Access-Token"))
	}
	tr.add(map[string]interface{}{"kind": "late", "r": 0, "ok": late.UpHits > 0, "gen": gen, "status": late.Status})
	served, calls := 0, 0
	for r := 1; r <= n; r++ {
		if results[r] != nil && (results[r].UpHits > 0 || results[r].Status == 202) {
			served++
		}
	}
	for _, e := range tr.events {
		if e["kind"] == "refresh" {
			calls++
		}
	}
	// (signedOut: a sign-out of this behaviour was answered with the success redirect; lateOk: the browser's cookie still authenticates)
	tr.add(map[string]interface{}{"kind": "end", "r": 0, "ok": w.mr.Exists(key), "gen": -1, "served": served, "calls": calls, "n": n,
		"signedOut": atomic.LoadInt32(&signedOut) == 1, "lateOk": late.UpHits > 0})
	return tr.events, diverged, nil
}

func init() {
	// sched: every interleaving TLC enumerated, replayed with the gate scheduler
	vpRegister("sched", func(t *testing.T, env *vpEnv) {
		var wg sync.WaitGroup
		ch := make(chan *vpCase, len(env.cases))
		for i := range env.cases {
			ch <- &env.cases[i]
		}
		close(ch)
		for i := 0; i < 12; i++ {
			wg.Add(1)
			go func() {
				defer wg.Done()
				w, err := vpRefreshWorld()
				if err != nil {
					for c := range ch {
						env.emit(vpOut{ID: c.ID, Err: "world: " + err.Error()})
					}
					return
				}
				defer w.close()
				for c := range ch {
					cm := map[string]interface{}{}
					jsonUnmarshal(c.Cfg, &cm)
					steps := make([]vpStep, len(c.Steps))
					for k := range c.Steps {
						steps[k] = vpStep{A: c.Steps[k].A, Args: map[string]interface{}{"r": c.Steps[k].Args["r"]}}
					}
					var sos []int
					if l, ok := cm["signouts"].([]interface{}); ok {
						for _, x := range l {
							if f, ok := x.(float64); ok {
								sos = append(sos, int(f))
							}
						}
					}
					evs, div, err := vpRunRefreshBehaviour(w, vpS(cm, "mode"), vpB(cm, "stale"), vpI(cm, "n"), steps, vpB(cm, "lockExpires"), sos...)
					if err != nil {
						env.emit(vpOut{ID: c.ID, Err: err.Error()})
						// the world may hold blocked goroutines: replace it
						w.close()
						if w, err = vpRefreshWorld(); err != nil {
							return
						}
						continue
					}
					o := vpOut{ID: c.ID, Steps: evs}
					if div != "" {
						o.Obs = map[string]interface{}{"diverged": div}
					}
					env.emit(o)
				}
			}()
		}
		wg.Wait()
	})

	// stress: truly concurrent requests (run under -race), traces judged by the same monitors
	vpRegister("stress", func(t *testing.T, env *vpEnv) {
		rng := mrand.New(mrand.NewSource(env.seed))
		id := 0
		w, err := vpRefreshWorld()
		if err != nil {
			t.Fatalf("world: %v", err)
		}
		defer w.close()
		rounds := 6
		sizes := []int{2, 4, 8, 16}
		if env.tier == "thorough" {
			rounds = 40
		}
		for _, mode := range []string{"ok", "norotate", "failvalid", "failinvalid"} {
			for _, n := range sizes {
				for k := 0; k < rounds; k++ {
					_ = rng
					id++
					evs, _, err := vpRunRefreshBehaviour(w, mode, true, n, nil, false)
					if err != nil {
						env.emit(vpOut{ID: id, Err: err.Error()})
						continue
					}
					env.emit(vpOut{ID: id, Steps: evs, Obs: map[string]interface{}{"mode": mode, "n": n}})
				}
			}
		}
		// the cookie store: no lock, every concurrent request refreshes (or, refused by a rotating provider, re-validates) for itself
		cw, err := vpNewWorld(&vpCfg{Store: "cookie", Refresh: 3600, Legacy: map[string]bool{"passAccessToken": true, "setXAuthRequest": true}})
		if err != nil {
			t.Fatalf("cookie world: %v", err)
		}
		defer cw.close()
		for _, mode := range []string{"norotate", "ok"} {
			for _, n := range sizes {
				for k := 0; k < rounds; k++ {
					id++
					evs, err := vpRunCookieRefreshBehaviour(cw, mode, n)
					if err != nil {
						env.emit(vpOut{ID: id, Err: err.Error()})
						continue
					}
					env.emit(vpOut{ID: id, Steps: evs, Obs: map[string]interface{}{"mode": mode, "n": n, "store": "cookie"}})
				}
			}
		}
	})
}

// vpRunCookieRefreshBehaviour: n truly concurrent requests presenting one stale session of the COOKIE store (self-contained credential, no
// lock: every request refreshes for itself). Recorded: the provider's refresh grants / refusals and what each request was served with.
func vpRunCookieRefreshBehaviour(w *vpWorld, mode string, n int) ([]map[string]interface{}, error) {
	idp := w.idp
	idp.mu.Lock()
	idp.rotate, idp.refreshMode = mode != "norotate", "ok"
	idp.mu.Unlock()
	jar := vpNewJar()
	if _, err := w.login(jar, "alice", ""); err != nil {
		return nil, err
	}
	if err := w.ageSessionOpt(jar, 2*time.Hour, false); err != nil {
		return nil, err
	}
	cookie := jar.header()
	tr := &vpTraceRec{}
	idp.onRefresh = func(ok bool, rt string) {
		tr.add(map[string]interface{}{"kind": "refresh", "ok": ok, "gen": vpGenOfToken(rt), "r": 0})
	}
	defer func() { idp.onRefresh = nil }()
	var wg sync.WaitGroup
	release := make(chan struct{})
	for r := 1; r <= n; r++ {
		wg.Add(1)
		go func(r int) {
			defer wg.Done()
			<-release
			target := "/private"
			authonly := r%2 == 0
			if authonly {
				target = w.prefix() + "/auth"
			}
			var shape [][2]string
			if !authonly && r%3 == 0 {
				shape = [][2]string{{"Connection", "keep-alive, Upgrade"}, {"Upgrade", "websocket"}, {"Sec-WebSocket-Version", "13"}, {"Sec-WebSocket-Key", "dGhlIHNhbXBsZSBub25jZQ=="}}
			}
			resp := w.do(vpReq{Target: target, Cookie: cookie, Header: shape})
			gen := -1
			served := resp.UpHits > 0
			if authonly {
				served = resp.Status == 202
				if served {
					gen = vpGenOfToken(resp.Header.Get("X-Auth-Request-Access-Token"))
				}
			} else if resp.UpLast != nil {
				gen = vpGenOfToken(resp.UpLast.Header.Get("X-Forwarded-Access-Token"))
			}
			tr.add(map[string]interface{}{"kind": "done", "r": r, "ok": served, "gen": gen, "status": resp.Status,
				"cleared": w.sessionCookieEffect(resp) == "cleared", "panic": resp.Panic != ""})
		}(r)
	}
	close(release)
	wg.Wait()
	return tr.events, nil
}

var vpBehaviourSeq int64
