-------------------------------- MODULE Access --------------------------------
(* C01: no upstream access or identity disclosure without a valid credential or   *)
(* an operator-configured bypass; conversely valid + authorised is served.         *)
(* The proxy under test has e-mail domain rule example.com and allowed group g1,    *)
(* a skip-auth route ^/open, trusted network 198.51.100.0/24, API route ^/api.       *)
(* Users: alice (allowed), bob (e-mail refused), carol (group refused); htpasswd     *)
(* user hpuser (no e-mail, group g1).  Sessions of refused users are minted by a     *)
(* permissive twin proxy sharing secret and store.                                   *)
EXTENDS Naturals, Sequences, FiniteSets, TLC, Json, CSV, Str

CONSTANTS Tier

Vocab == [ atoms |-> [ none |-> "" ] ]

SessionCreds == {"valid", "aged_valid", "expired", "tamper_value", "tamper_ts", "tamper_sig", "other_secret", "csrf_as_session",
                 "ticket_no_entry", "garbage"}
BearerCreds  == {"bearer_valid", "bearer_otherkey", "bearer_algnone", "bearer_hs256pub", "bearer_wrong_iss", "bearer_wrong_aud",
                 "bearer_expired", "bearer_unverified", "bearer_multi_aud_azp",     \* the last: aud = [two other services], azp = this client
                 \* tokens of the two EXTRA issuers configured next to the provider (x: with a discovery document; x0: keys only, listed first):
                 \* good ones, and ones signed with the issuer's key for the right audience but naming another issuer
                 "xbearer_valid", "xbearer0_valid", "xbearer_wrong_iss", "xbearer0_wrong_iss"}
BasicCreds   == {"basic_valid", "basic_wrongpw", "basic_malformed"}
ComboCreds   == {"valid_plus_badbearer", "expired_plus_goodbearer"}
Creds == {"none"} \cup SessionCreds \cup BearerCreds \cup BasicCreds \cup ComboCreds

\* dave: the e-mail claim holds "dave.example.com" (not an address); erin: no e-mail claim, subject "erin.example.com" (bearer only).
\* Neither matches the e-mail rule, which admits addresses @example.com.
Users == {"alice", "bob", "carol", "dave", "erin"}
\* old_prefix: with a custom --proxy-prefix the default location /oauth2/userinfo is an ordinary protected path
Endpoints == {"proxy", "authonly", "userinfo", "sign_in", "start", "static", "robots", "ping", "old_prefix"}
Methods == {"GET", "POST", "OPTIONS", "HEAD", "DELETE"}
\* which bypass the REQUEST matches (route: path under /open; ip: trusted source address), or which one it only CLAIMS to match through
\* client-supplied headers the proxy must ignore with reverse-proxy off (X-Forwarded-Uri: /open/x ; X-Forwarded-For / X-Real-Ip: trusted address)
\* with reverse-proxy mode ON (cfg.rp) the client address is what the configured header (X-Real-IP) says: "ip" then means a trusted
\* address in that header (from an untrusted peer); "peer_garbage" / "peer_absent": the PEER is a trusted address but the header is
\* unparsable / missing - the client address is unknown, which is not a bypass
\* route_get: the path lies under a skip-auth route the operator qualified with a method (GET=^/getonly): a bypass for GET requests only
Bypass  == {"none", "route", "route_get", "ip", "spoof_uri", "spoof_ip", "peer_garbage", "peer_absent"}
RealBypass == {"route", "ip"}
ErrModes == {"page", "force_json", "accept_json", "api_route"}

Cfgs == [store : {"cookie", "redis"}, preflight : BOOLEAN, forceJSON : BOOLEAN, spb : BOOLEAN, bearer : BOOLEAN, htpasswd : BOOLEAN, customPrefix : BOOLEAN, rp : BOOLEAN, expire0 : BOOLEAN]      \* expire0: cookie-expire = 0 (no age limit)

\* ---- requirement -------------------------------------------------------------------------------
UserAuthorised(u) == u = "alice"
\* does the request carry a credential this proxy accepts, and for whom
CredValid(c, cfg) ==
    CASE c \in {"valid", "aged_valid", "valid_plus_badbearer"}     -> TRUE
      [] c = "expired"                                              -> cfg.expire0        \* without an age limit an old credential is simply valid
      [] c = "expired_plus_goodbearer"                              -> cfg.expire0 \/ cfg.bearer
      [] c \in {"bearer_valid", "xbearer_valid", "xbearer0_valid"} -> cfg.bearer
      [] c = "basic_valid"                                           -> cfg.htpasswd
      [] OTHER                                                       -> FALSE
\* the identity behind the credential: the given user, or the htpasswd user (exempt from e-mail rules, group g1)
Authorised(c, u) == IF c = "basic_valid" THEN TRUE ELSE UserAuthorised(u)
Bypassed(r, cfg) == r.bypass \in RealBypass \/ (r.bypass = "route_get" /\ r.method = "GET") \/ (cfg.preflight /\ r.method = "OPTIONS")

Req_Served(r, cfg)   == (CredValid(r.cred, cfg) /\ Authorised(r.cred, r.user)) \/ Bypassed(r, cfg)
\* user info is disclosed to the holder of a valid credential only (authorised, or on a bypassed request)
Req_Identity(r, cfg) == CredValid(r.cred, cfg) /\ (Authorised(r.cred, r.user) \/ Bypassed(r, cfg))

Req_Obs(r, cfg) ==
    CASE r.endpoint \in {"proxy", "old_prefix"} ->
           IF Req_Served(r, cfg) THEN [served |-> TRUE, upstream |-> 1]
           ELSE [served |-> FALSE, upstream |-> 0, class |-> [oneof |-> <<"signin", "idp_redirect", "401", "403">>], identityInBody |-> FALSE]
      [] r.endpoint = "authonly" ->
           IF Req_Served(r, cfg) THEN [served |-> TRUE, upstream |-> 0]
           ELSE [served |-> FALSE, upstream |-> 0, class |-> [oneof |-> <<"401", "403">>], identityInBody |-> FALSE]
      [] r.endpoint = "userinfo" ->
           IF Req_Identity(r, cfg) THEN [identity |-> TRUE, upstream |-> 0]
           ELSE [identity |-> FALSE, upstream |-> 0, identityInBody |-> FALSE]
      [] OTHER -> [upstream |-> 0, identityInBody |-> FALSE]     \* sign_in, start, static, robots, ping: never forward, never disclose

\* the response class the code is expected to choose (conformance only)
Impl_Class(r, cfg) ==
    IF r.endpoint \notin {"proxy", "old_prefix"} \/ Req_Served(r, cfg) THEN "n/a"
    ELSE IF CredValid(r.cred, cfg) THEN "403"
    ELSE IF cfg.forceJSON \/ r.errmode \in {"accept_json", "api_route"} THEN "401"
    ELSE IF cfg.spb THEN "idp_redirect" ELSE "signin"

\* ---- cases ---------------------------------------------------------------------------------------
Mk(cfg, cred, u, ep, m, bp, em) == [cfg |-> cfg, cred |-> cred, user |-> u, endpoint |-> ep, method |-> m, bypass |-> bp, errmode |-> em]

DefaultCfg(cfg) == ~cfg.preflight /\ ~cfg.forceJSON /\ ~cfg.spb /\ cfg.bearer /\ cfg.htpasswd /\ ~cfg.customPrefix /\ ~cfg.rp /\ ~cfg.expire0
InScope(c) ==
    /\ (c.cred = "ticket_no_entry" => c.cfg.store = "redis")
    /\ (c.errmode = "force_json" <=> c.cfg.forceJSON)
    /\ (c.errmode = "api_route" => c.endpoint = "proxy" /\ c.bypass \in {"none", "ip"})
    /\ (c.errmode # "page" => c.endpoint = "proxy")
    /\ (c.user # "alice" => c.cred \in {"valid", "aged_valid", "bearer_valid", "expired", "valid_plus_badbearer"})
    /\ (c.user = "erin" => c.cred = "bearer_valid")
    /\ (c.bypass = "route_get" => c.endpoint = "proxy" /\ c.errmode = "page" /\ c.cred \in {"none", "valid", "tamper_sig"} /\ c.user = "alice" /\ ~c.cfg.rp /\ ~c.cfg.expire0)
    /\ (c.bypass \in {"spoof_uri", "spoof_ip"} => c.endpoint \in {"proxy", "authonly"} /\ c.errmode \in {"page", "force_json", "accept_json"} /\ ~c.cfg.rp)
    /\ (c.bypass \in {"peer_garbage", "peer_absent"} <=> (c.cfg.rp /\ c.bypass \notin {"none", "route", "route_get", "ip"}))
    /\ (c.cfg.expire0 => c.endpoint \in {"proxy", "authonly", "userinfo"} /\ c.errmode = "page" /\ c.method = "GET" /\ c.bypass = "none" /\ c.user = "alice"
                         /\ c.cred \in {"none", "valid", "expired", "tamper_value", "tamper_ts", "tamper_sig", "other_secret", "csrf_as_session", "garbage", "ticket_no_entry"})
    /\ (c.cfg.rp => c.endpoint \in {"proxy", "authonly"} /\ c.errmode = "page" /\ c.method = "GET" /\ c.cfg.store = "cookie"
                    /\ c.cred \in {"none", "valid", "tamper_sig", "bearer_valid"})
    /\ (c.endpoint \notin {"proxy", "authonly", "userinfo"} => c.method = "GET" /\ c.bypass = "none" /\ c.errmode = "page"
                                                             /\ (DefaultCfg(c.cfg) \/ DefaultCfg([c.cfg EXCEPT !.customPrefix = FALSE]))
                                                             /\ c.cred \in {"none", "valid", "expired", "bearer_valid"})
    /\ (c.endpoint = "old_prefix" <=> (c.cfg.customPrefix /\ c.endpoint \notin {"proxy", "authonly", "userinfo", "sign_in", "start", "static", "robots", "ping"}))
    /\ (c.cfg.customPrefix => c.cred \in {"none", "valid", "expired", "tamper_sig", "bearer_valid", "basic_valid"} /\ c.errmode = "page" /\ c.method = "GET"
                               /\ c.cfg.store = "cookie" /\ c.bypass \in {"none", "ip"})
    /\ (c.method \in {"POST", "HEAD", "DELETE"} => c.endpoint \in {"proxy", "authonly"})
    /\ (c.method \in {"HEAD", "DELETE"} => c.errmode = "page" /\ c.bypass \in {"none", "route", "route_get"})
    \* feature switches only matter for the credentials they govern
    /\ (~c.cfg.bearer => c.cred \in BearerCreds \cup ComboCreds \cup {"none", "valid"})
    /\ (~c.cfg.htpasswd => c.cred \in BasicCreds \cup {"none", "valid"})
    /\ (c.cfg.spb => c.errmode = "page" /\ c.endpoint = "proxy")
    /\ (c.cfg.preflight => c.method = "OPTIONS" \/ c.cred \in {"none", "valid"})
    /\ (Tier = "quick" =>
          /\ (c.bypass # "none" => c.cred \in {"none", "valid", "expired", "tamper_sig", "bearer_otherkey", "basic_wrongpw"} /\ c.errmode \in {"page", "force_json"})
          /\ (c.method = "OPTIONS" => c.cred \in {"none", "valid", "tamper_sig"})
          /\ (c.method = "POST" => c.cred \in {"none", "valid", "expired", "bearer_valid"})
          /\ (c.method \in {"HEAD", "DELETE"} => c.cred \in {"none", "valid", "tamper_sig"} /\ c.user = "alice" /\ DefaultCfg(c.cfg))
          /\ (c.errmode \in {"accept_json", "api_route"} => c.cred \in {"none", "valid", "expired", "tamper_value", "bearer_otherkey"} /\ c.method = "GET")
          /\ (~DefaultCfg(c.cfg) => Cardinality({f \in {"preflight", "forceJSON", "spb", "customPrefix", "rp", "expire0"} : c.cfg[f]} \cup {f \in {"bearer", "htpasswd"} : ~c.cfg[f]}) = 1))

VARIABLE c
\* (the configurations of the tier are selected first: the nested enumeration below then only runs over those)
Away(cfg) == Cardinality({f \in {"preflight", "forceJSON", "spb", "customPrefix", "rp", "expire0"} : cfg[f]} \cup {f \in {"bearer", "htpasswd"} : ~cfg[f]})
TierCfgs == IF Tier = "quick" THEN {cfg \in Cfgs : Away(cfg) <= 1} ELSE Cfgs
Init == \E cfg \in TierCfgs, cred \in Creds, u \in Users, ep \in Endpoints, m \in Methods, bp \in Bypass, em \in ErrModes :
          c = Mk(cfg, cred, u, ep, m, bp, em) /\ InScope(c)
Next == UNCHANGED c

CaseRec == [fam |-> "access", in |-> c, req |-> Req_Obs(c, c.cfg) @@ [panic |-> FALSE], impl |-> [class |-> Impl_Class(c, c.cfg)]]
EmitVocab == JsonSerialize("vocab.json", Vocab)
EmitCase  == CSVWrite("%1$s", <<ToJson(CaseRec)>>, "cases.ndjson")
=============================================================================
