CONSTANTS
  Reqs = {1, 2}
  Mode = "failinvalid"
  StartStale = TRUE
  LockExpires = FALSE
  MaxRetry = 1
  UseLock = TRUE
  ReloadAfterLock = TRUE
INIT Init
NEXT Next
INVARIANTS NoStaleServe FailClosed NewTokensVisible OneRefresh AllServed EmitCase
CHECK_DEADLOCK FALSE
