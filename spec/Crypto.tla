-------------------------------- MODULE Crypto --------------------------------
(* C02, model level: what the cookie MAC covers.                                   *)
(* pkg/encryption/utils.go signs  HMAC(secret, name ++ value ++ timestamp)  - the    *)
(* three strings are CONCATENATED without delimiters (cookieSignature writes them    *)
(* one after another into the hash).  So the MAC does not authenticate the field     *)
(* boundaries: characters may be moved between name and value (a CSRF cookie         *)
(* NAME_csrf=V verifies as NAME="_csrf"+V) or between value and timestamp.           *)
(* The model represents that honestly: a presented cookie verifies iff its            *)
(* flattening equals the flattening of an issued one.  What saves the property is     *)
(* that the value must be padded base64 (length multiple of 4) and the timestamp a    *)
(* plausible number; TLC checks that with these side conditions every accepted        *)
(* cookie means exactly what was issued, and refutes it without them (selftest).      *)
EXTENDS Naturals, Sequences, FiniteSets, TLC, Str

CONSTANTS CheckB64,     \* TRUE: the value must decode as padded base64 (what the code does)
          SuffixLen     \* length of the name suffix that distinguishes the CSRF cookie name ("_csrf" = 5)

\* characters: "n" a name character; "u" the suffix character (may also occur in values: base64url alphabet);
\* "a" a value character; "1","2" digits (occur in values and timestamps)
ValChars == {"a", "u", "1"}
TsChars  == {"1", "2", "a"}
Digits   == {"1", "2"}
Suffix   == [i \in 1..SuffixLen |-> "u"]
SName    == <<"n">>                   \* session cookie name
CName    == SName \o Suffix           \* CSRF cookie name
Names    == {SName, CName}

\* issued credentials (one secret): a session cookie, a CSRF cookie; values are padded base64: length 4
Issued == { [name |-> SName, value |-> <<"a", "a", "a", "1">>, ts |-> <<"1", "2">>],
            [name |-> CName, value |-> <<"a", "1", "a", "a">>, ts |-> <<"1", "2">>] }

Flatten(c) == c.name \o c.value \o c.ts
WellFormed(c) == /\ (CheckB64 => Len(c.value) % 4 = 0)
                 /\ Len(c.ts) = 2                         \* a plausible timestamp: same number of digits (else far past / far future)
                 /\ \A i \in 1..Len(c.ts) : c.ts[i] \in Digits
\* the proxy looks a cookie up by the NAME it expects and verifies the MAC over name ++ value ++ ts
Accept(c) == c.name \in Names /\ WellFormed(c) /\ \E o \in Issued : Flatten(o) = Flatten(c)

\* everything an attacker can present: any name the proxy reads, any value / timestamp, with the signature of an issued cookie
VARIABLE c
Init == \E nm \in Names, v \in SeqsUpTo(ValChars, 0, 4 + SuffixLen), t \in SeqsUpTo(TsChars, 0, 3) : c = [name |-> nm, value |-> v, ts |-> t]
Next == UNCHANGED c

\* tamper-evidence: whatever verifies is exactly an issued credential (same name, same value, same timestamp)
C02_TamperEvident == Accept(c) => c \in Issued
=============================================================================
