CONSTANTS
  Reqs = {1, 2, 3}
  Mode = "ok"
  StartStale = TRUE
  LockExpires = FALSE
  MaxRetry = 1
  UseLock = TRUE
  ReloadAfterLock = TRUE
INIT Init
NEXT Next
INVARIANTS NoStaleServe FailClosed NewTokensVisible OneRefresh AllServed EmitCase
CHECK_DEADLOCK FALSE
