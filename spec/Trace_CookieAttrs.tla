-------------------------- MODULE Trace_CookieAttrs --------------------------
(* Judge for the C18 monitor: every Set-Cookie of a proxy cookie observed on any  *)
(* response of any driver (logins, refreshes, sign-outs, error paths, fault and    *)
(* forwarding-header explorations ...), recorded with the cookie configuration and  *)
(* the effective request host it was produced under, must carry the configured     *)
(* attributes, the Domain that CookieAttrs!Req_Domain's rule selects and at most    *)
(* 4096 bytes.  Hosts and domains arrive as label sequences with their text length  *)
(* (labels outside CookieAttrs' vocabulary included), so the rule is restated over  *)
(* indexed records; RFCMatch / SuffixMatch / WireDomain are CookieAttrs'.           *)
EXTENDS CookieAttrs, Integers
Observed == ndJsonDeserialize("trace.ndjson")
VARIABLES i, last
NoEv == [eid |-> 0]
Init2 == /\ i = 1 /\ last = NoEv
         /\ c = Mk(TRUE, TRUE, "", "/", {}, EX, <<>>, "host", "cookie", "small", "default")
Next2 == i <= Len(Observed) /\ last' = Observed[i] /\ i' = i + 1 /\ UNCHANGED c
Spec2 == Init2 /\ [][Next2]_<<i, last, c>>

Idx(ds) == 1..Len(ds)
UnambN(h, ds) == \A k \in Idx(ds) : RFCMatch(h, ds[k].a) = SuffixMatch(h, ds[k].a)
ReqDomainN(h, ds) ==
    LET m == {k \in Idx(ds) : RFCMatch(h, ds[k].a)} IN
    IF ds = <<>> THEN <<>>
    ELSE IF m # {} THEN ds[CHOOSE k \in m : \A j \in m : ds[j].n <= ds[k].n].a
    ELSE ds[CHOOSE k \in Idx(ds) : \A j \in Idx(ds) : ds[j].n >= ds[k].n].a

Seen == last.eid # 0
Mon_Flags  == Seen => /\ last.secure = last.cfg.secure /\ last.httpOnly = last.cfg.httpOnly
                      /\ last.sameSite = last.cfg.sameSite /\ last.path = last.cfg.path
Mon_Size   == Seen => last.len <= 4096
\* (hosts for which string-suffix and RFC domain-match disagree, or spelled with capitals, are outside the rule's unambiguous domain)
Mon_Domain == (Seen /\ ~last.amb /\ UnambN(last.host, last.domains)) => last.domain = WireDomain(ReqDomainN(last.host, last.domains))
TraceAccepted == TLCGet("stats").diameter - 1 = Len(Observed)
=============================================================================
