#!/bin/bash
# usage: tools/verify_seed.sh <seed_src_dir> <seed_id> <pkgdir-relative-to-repo> <go test -run regex>
# Confirms in a scratch worktree (outside /repo and /verif) that the seeded change compiles, passes the
# repository's own tests, and that its demonstration fails with the change and passes without it.
# On success copies the seed to /verif/seeded/<seed_id>/ with verified.json.
set -u
src="$1"; id="$2"; pkg="$3"; rx="$4"
export GOFLAGS=-mod=mod GOPROXY=off; unset GOTOOLCHAIN GOSUMDB
wt=/tmp/vseed_$id
git -C /repo worktree remove --force $wt 2>/dev/null
git -C /repo worktree add -q --detach $wt HEAD || exit 2
cd $wt
res() { echo "$1"; }
git apply "$src/patch.diff" || { echo "APPLY-FAIL"; git -C /repo worktree remove --force $wt; exit 2; }
go build ./... > $wt/.build.log 2>&1; b=$?
go test -vet=off -count=1 ./... > $wt/.test.log 2>&1; t=$?
if [ $t -ne 0 ]; then
  # the repository has a few timing-sensitive tests: re-run the failing packages once before concluding
  pk=$(grep -E '^(FAIL|---)' $wt/.test.log | grep -E '^FAIL\s' | awk '{print $2}' | sort -u | tr '\n' ' ')
  mkdir -p /verif/.work; cp $wt/.test.log /verif/.work/vseed_${id}_test.log
  if [ -n "$pk" ]; then go test -vet=off -count=1 $pk > $wt/.test2.log 2>&1; t=$?; cp $wt/.test2.log /verif/.work/vseed_${id}_test2.log; fi
fi
cp "$src/demo_test.go" "$pkg/zz_seed_demo_test.go"
go test -vet=off -count=1 -run "$rx" "./$pkg" > $wt/.demo_with.log 2>&1; dw=$?
git apply -R "$src/patch.diff"
go test -vet=off -count=1 -run "$rx" "./$pkg" > $wt/.demo_without.log 2>&1; dwo=$?
ok=false
if [ $b -eq 0 ] && [ $t -eq 0 ] && [ $dw -ne 0 ] && [ $dwo -eq 0 ]; then ok=true; fi
mkdir -p /verif/seeded/$id
cp "$src/patch.diff" "$src/demo_test.go" "$src/meta.json" /verif/seeded/$id/ 2>/dev/null
cat > /verif/seeded/$id/verified.json <<J
{"seed":"$id","build_rc":$b,"repo_tests_rc":$t,"demo_with_change_rc":$dw,"demo_without_change_rc":$dwo,"confirmed":$ok,
 "demo_pkg":"$pkg","demo_run":"$rx","how":"tools/verify_seed.sh in scratch worktree $wt (removed afterwards)"}
J
tail -3 $wt/.demo_with.log | head -3
cd /; git -C /repo worktree remove --force $wt
echo "seed $id confirmed=$ok (build=$b tests=$t demo_with=$dw demo_without=$dwo)"
