#!/bin/bash
# runs every seeded change against the check of the property it was written for (and listed extra checks); writes seeded/RESULTS.tsv
cd /verif
out=seeded/RESULTS.tsv
echo -e "seed\tcheck\ttier\trc\tverdict" > $out
run() { # seed check
  local d=seeded/$1 p=$2
  local patch=$d/patch.diff
  [ -f $d/patch_ported_to_fixed_tree.diff ] && patch=$d/patch_ported_to_fixed_tree.diff
  ./tools/try_seed.sh /verif/$patch $p quick > .work/seedrun_$1_$p.log 2>&1; rc=$?
  v=missed; [ $rc -eq 1 ] && v=caught; [ $rc -eq 2 ] && v=no-verdict
  echo -e "$1\t$p\tquick\t$rc\t$v" >> $out
}
for d in seeded/C*; do
  s=$(basename $d); p=${s%%-*}
  run $s $p
done
# cross catches
run C01-B C15
run C18-B C10
run C11-B C13
cat $out
