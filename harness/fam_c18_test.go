//go:build verif

package main

import (
	"crypto/rand"
	"encoding/base64"
	"fmt"
	mrand "math/rand"
	"net/http"
	"sort"
	"strings"
	"testing"
	"time"
)

// tokens maps a concrete string back to atoms (longest match); unknown bytes become OTHER:<text>.
func (v *vpVocab) tokens(s string) []string {
	type kv struct{ a, t string }
	var l []kv
	for a, t := range v.Atoms {
		if t != "" {
			l = append(l, kv{a, t})
		}
	}
	sort.Slice(l, func(i, j int) bool {
		if len(l[i].t) != len(l[j].t) {
			return len(l[i].t) > len(l[j].t)
		}
		return l[i].a < l[j].a
	})
	out := []string{}
	for len(s) > 0 {
		hit := false
		for _, e := range l {
			if strings.HasPrefix(s, e.t) {
				out = append(out, e.a)
				s = s[len(e.t):]
				hit = true
				break
			}
		}
		if !hit {
			if n := len(out); n > 0 && strings.HasPrefix(out[n-1], "OTHER:") {
				out[n-1] += s[:1]
			} else {
				out = append(out, "OTHER:"+s[:1])
			}
			s = s[1:]
		}
	}
	return out
}

func vpSameSiteName(s http.SameSite) string {
	switch s {
	case http.SameSiteLaxMode:
		return "lax"
	case http.SameSiteStrictMode:
		return "strict"
	case http.SameSiteNoneMode:
		return "none"
	}
	return ""
}

func vpRandPad(n int) string {
	b := make([]byte, n)
	rand.Read(b)
	return base64.RawURLEncoding.EncodeToString(b)
}

// cookieAttrRecord projects one Set-Cookie to the abstract attribute record.
func vpCookieAttrs(voc *vpVocab, c *http.Cookie) map[string]interface{} {
	return map[string]interface{}{"secure": c.Secure, "httpOnly": c.HttpOnly, "sameSite": vpSameSiteName(c.SameSite),
		"path": c.Path, "domain": voc.tokens(c.Domain)}
}

func init() {
	vpRegister("c18", func(t *testing.T, env *vpEnv) {
		voc, err := vpLoadVocab()
		if err != nil {
			t.Fatalf("vocab: %v", err)
		}
		keys, groups := vpGroup(env.cases, func(c *vpCase) string {
			in := c.In
			return fmt.Sprint(in["secure"], in["httpOnly"], in["sameSite"], in["path"], vpJSON(in["domains"]), in["store"], in["nameLen"], in["via"] == "xfh", in["csrf"])
		})
		vpRunGroups(keys, groups, env.seed, func(rng *mrand.Rand, key string, cs []*vpCase) {
			in0 := cs[0].In
			sec, ho := vpB(in0, "secure"), vpB(in0, "httpOnly")
			cfg := &vpCfg{Store: vpS(in0, "store"), CookieSecure: &sec, CookieHTTPOnly: &ho, CookieSameSite: vpS(in0, "sameSite"),
				CookiePath: vpS(in0, "path"), ReverseProxy: vpS(in0, "via") == "xfh", Refresh: 3600, CSRFPerRequest: vpS(in0, "csrf") == "perreq"}
			if dl, ok := in0["domains"].([]interface{}); ok {
				for _, d := range dl {
					cfg.CookieDomains = append(cfg.CookieDomains, voc.text(vpSeq(d)))
				}
			}
			if vpS(in0, "nameLen") == "long" {
				cfg.CookieName = "_vp" + strings.Repeat("n", 247)
			}
			w, err := vpNewWorld(cfg)
			if err != nil {
				for _, c := range cs {
					env.emit(vpOut{ID: c.ID, Err: "world: " + err.Error()})
				}
				return
			}
			defer w.close()
			for _, c := range cs {
				func() {
					in := c.In
					host := voc.text(vpSeq(in["host"])) + voc.text(vpSeq(in["port"]))
					via := vpS(in, "via")
					w.idp.mutateClaims = nil
					if vpS(in, "size") == "split" {
						pad := vpRandPad(1800)
						w.idp.mutateClaims = func(kind string, cl map[string]interface{}) { cl["pad"] = pad }
					}
					mk := func(target string, jar *vpJar) vpReq {
						r := vpReq{Target: target, Cookie: jar.header()}
						if via == "xfh" {
							r.Host = "internal.local"
							r.Header = append(r.Header, [2]string{"X-Forwarded-Host", host})
						} else {
							r.Host = host
						}
						return r
					}
					var all []*http.Cookie
					var rawMax int
					purposes := map[string]bool{}
					note := func(r *vpResp) {
						for _, line := range r.Header.Values("Set-Cookie") {
							if len(line) > rawMax {
								rawMax = len(line)
							}
						}
						for _, ck := range r.Cookies {
							all = append(all, ck)
							kind := "other"
							switch {
							case w.isCSRFCookieName(ck.Name):
								kind = "csrf"
							case ck.Name == w.name:
								kind = "session"
							case w.isSessionCookieName(ck.Name):
								kind = "part"
							}
							if ck.Value == "" || ck.MaxAge < 0 {
								kind += "_clear"
							} else {
								kind += "_set"
							}
							purposes[kind] = true
						}
					}
					jar := vpNewJar()
					path := cfg.CookiePath
					if path == "" {
						path = "/"
					}
					r1 := w.do(mk(w.prefix()+"/start?rd=%2Fx", jar))
					jar.applyAll(r1)
					note(r1)
					code, state, err := w.idp.authorize(r1.Location, "alice")
					if err != nil || r1.Status != 302 {
						env.emit(vpOut{ID: c.ID, Err: fmt.Sprintf("start: %d %v", r1.Status, err)})
						return
					}
					if vpS(in, "csrf") == "perreq" {
						// the CSRF cookie of an abandoned earlier login, no longer valid, is still in the jar
						jar.applyCookie(&http.Cookie{Name: w.name + "_0a1b2c3d_csrf", Value: "Z2FyYmxlZA==|1600000000|c3RhbGU=", Path: path})
					}
					r2 := w.do(mk(w.prefix()+"/callback?code="+code+"&state="+strings.ReplaceAll(state, "/", "%2F"), jar))
					jar.applyAll(r2)
					note(r2)
					r3 := w.do(mk("/private", jar))
					jar.applyAll(r3)
					note(r3)
					// a session older than the refresh period is refreshed and its cookie re-issued on that response
			refreshCookie := "none"
			if err := w.ageSession(jar, 2*time.Hour, mk("/", jar)); err != nil {
				env.emit(vpOut{ID: c.ID, Err: "ageSession: " + err.Error()})
				return
			}
			r3b := w.do(mk("/private", jar))
			jar.applyAll(r3b)
			note(r3b)
			refreshCookie = w.sessionCookieEffect(r3b)
			// sign-in page clears the session cookie: run it on a copy of the jar
					j2 := jar.clone()
					r4 := w.do(mk(w.prefix()+"/sign_in", j2))
					note(r4)
					r5 := w.do(mk(w.prefix()+"/sign_out", jar))
					jar.applyAll(r5)
					note(r5)
					left := 0
					for _, n := range jar.names() {
						if w.isSessionCookieName(n) {
							left++
						}
					}
					seen := map[string]map[string]interface{}{}
					for _, ck := range all {
						a := vpCookieAttrs(voc, ck)
						seen[vpJSON(a)] = a
					}
					var keys []string
					for k := range seen {
						keys = append(keys, k)
					}
					sort.Strings(keys)
					attrs := []interface{}{}
					for _, k := range keys {
						attrs = append(attrs, seen[k])
					}
					var ps []string
					for k := range purposes {
						ps = append(ps, k)
					}
					sort.Strings(ps)
					obs := map[string]interface{}{"attrs": attrs, "maxLen": rawMax, "sessionCookiesAfterSignOut": left, "cookiesSeen": len(all),
						"purposes": ps, "loggedIn": r3.UpHits > 0, "refreshCookie": refreshCookie, "servedAfterRefresh": r3b.UpHits > 0, "statuses": []int{r1.Status, r2.Status, r3.Status, r4.Status, r5.Status}}
					if len(attrs) == 1 {
						obs["domain"] = attrs[0].(map[string]interface{})["domain"]
					}
					env.emit(vpOut{ID: c.ID, Obs: obs, Conc: map[string]interface{}{"host": host, "via": via, "cookie_domains": cfg.CookieDomains, "cookie_name_len": len(w.name)}})
				}()
			}
		})
	})
}
