//go:build verif

package main

import (
	"sync"
	"encoding/base64"
	"encoding/hex"
	"fmt"
	mrand "math/rand"
	"net/http"
	"strings"
	"testing"
	"time"

	sessionsapi "github.com/oauth2-proxy/oauth2-proxy/v7/pkg/apis/sessions"
	"github.com/oauth2-proxy/oauth2-proxy/v7/pkg/cookies"
	"github.com/oauth2-proxy/oauth2-proxy/v7/pkg/encryption"
)

func vpSecretOf(form string) string {
	raw := map[string]string{"16": "0123456789abcdef", "24": "0123456789abcdefghijklmn", "32": "0123456789abcdefghijklmnopqrstuv"}
	switch form {
	case "raw16":
		return raw["16"]
	case "raw24":
		return raw["24"]
	case "raw32":
		return raw["32"]
	case "b64_16":
		return base64.URLEncoding.EncodeToString([]byte(raw["16"]))
	case "b64_24":
		return base64.URLEncoding.EncodeToString([]byte(raw["24"]))
	case "b64_32":
		return base64.URLEncoding.EncodeToString([]byte(raw["32"]))
	}
	return raw["32"]
}

type vpIssued struct {
	cookies [][2]string // name, value (in order)
	sess    *sessionsapi.SessionState
	csrf    *vpCSRFPlain
}

func (i *vpIssued) header() string {
	var p []string
	for _, c := range i.cookies {
		p = append(p, c[0]+"="+c[1])
	}
	return strings.Join(p, "; ")
}

var vpReplSet = []byte{'A', 'B', '=', '|', '.', '0', '9', '_', '-', 'z'}

// positions to visit in a string of length n: every stride-th plus everything within 8 of a separator position
func vpPositions(s string, stride int) []int {
	var out []int
	near := func(i int) bool {
		for j := i - 8; j <= i+8; j++ {
			if j >= 0 && j < len(s) && (s[j] == '|' || s[j] == '.') {
				return true
			}
		}
		return i < 8 || i >= len(s)-8
	}
	for i := 0; i < len(s); i++ {
		if stride <= 1 || i%stride == 0 || near(i) {
			out = append(out, i)
		}
	}
	return out
}

func init() {
	vpRegister("tamper", func(t *testing.T, env *vpEnv) {
		keys, groups := vpGroup(env.cases, func(c *vpCase) string { return fmt.Sprint(c.In["secret"], c.In["cred"], c.In["expire"]) })
		vpRunGroups(keys, groups, env.seed, func(rng *mrand.Rand, key string, cs []*vpCase) {
			in0 := cs[0].In
			cred := vpS(in0, "cred")
			store := "cookie"
			if cred == "ticket" {
				store = "redis"
			}
			secret := vpSecretOf(vpS(in0, "secret"))
			wcfg := &vpCfg{Store: store, CookieSecret: secret, CSRFPerRequest: cred == "csrf_perreq"}
			if vpS(in0, "expire") == "zero" {
				zero := 0
				wcfg.Expire = &zero
			}
			w, err := vpNewWorld(wcfg)
			if err != nil {
				for _, c := range cs {
					env.emit(vpOut{ID: c.ID, Err: "world: " + err.Error()})
				}
				return
			}
			defer w.close()
			thr, err := (func() ([]int, error) {
				if store != "cookie" {
					return []int{0, 0, 0, 0, 0}, nil
				}
				return w.calibrate(3, rng)
			})()
			if err != nil {
				return
			}
			// issue: two credentials of the same kind for different users (A is attacked, B supplies foreign pieces)
			issue := func(id int) (*vpIssued, error) {
				is := &vpIssued{}
				switch cred {
				case "csrf", "csrf_perreq":
					j := vpNewJar()
					r := w.startLogin(j, "/x")
					for _, ck := range r.Cookies {
						if w.isCSRFCookieName(ck.Name) && ck.Value != "" {
							is.cookies = append(is.cookies, [2]string{ck.Name, ck.Value})
						}
					}
					if len(is.cookies) != 1 {
						return nil, fmt.Errorf("no csrf cookie")
					}
					pl, err := vpOpenCSRF(w.secret, is.cookies[0][1])
					if err != nil {
						return nil, err
					}
					is.csrf = pl
				default:
					L := 200
					switch cred {
					case "cookie2":
						L = thr[1] + 300
					case "cookie3":
						L = thr[2] + 300
					}
					s := vpMkSession(id, L, rng)
					j := vpNewJar()
					if _, _, err := w.saveVia(j, s); err != nil {
						return nil, err
					}
					for _, ck := range j.list() {
						is.cookies = append(is.cookies, [2]string{ck.Name, ck.Value})
					}
					is.sess = s
				}
				return is, nil
			}
			A, errA := issue(1)
			B, errB := issue(2)
			if errA != nil || errB != nil {
				for _, c := range cs {
					env.emit(vpOut{ID: c.ID, Err: fmt.Sprint("issue: ", errA, errB)})
				}
				return
			}
			// acceptance oracle: what does the real code make of a Cookie header
			type verdict int
			const (
				rejected verdict = iota
				sameAsIssued
				different
			)
			panics := 0
			pairOp := false // recombinations of two issued credentials may legitimately reproduce the second one exactly
			load := func(hdr string) verdict {
				raw := "GET / HTTP/1.1\r\nHost: " + vpHost + "\r\nCookie: " + hdr + "\r\n\r\n"
				req, err := http.ReadRequest(bufioReader(raw))
				if err != nil {
					return rejected
				}
				v := rejected
				func() {
					defer func() {
						if e := recover(); e != nil {
							panics++
						}
					}()
					if A.csrf != nil {
						got, err := cookies.LoadCSRFCookie(req, A.cookies[0][0], &w.opts.Cookie)
						if err != nil || got == nil {
							return
						}
						// a CSRF object is what was issued iff it hashes to the same state / nonce and carries the same verifier
						pa := A.csrf
						same := func(p *vpCSRFPlain) bool {
							return got.CheckOAuthState(encryption.HashNonce(p.State)) && got.CheckOIDCNonce(encryption.HashNonce(p.Nonce)) && got.GetCodeVerifier() == p.Verifier
						}
						if same(pa) || (pairOp && same(B.csrf)) {
							v = sameAsIssued
						} else {
							v = different
						}
						return
					}
					got, err := w.proxy.sessionStore.Load(w.storeReqRaw(req))
					if err != nil || got == nil {
						return
					}
					if vpSessionsEqual(A.sess, got) || (pairOp && vpSessionsEqual(B.sess, got)) {
						v = sameAsIssued
					} else {
						v = different
					}
				}()
				return v
			}
			// sanity: the untouched credential loads
			if load(A.header()) != sameAsIssued {
				for _, c := range cs {
					env.emit(vpOut{ID: c.ID, Err: "untouched credential does not load"})
				}
				return
			}
			// confidentiality: nothing recoverable in cookie values / store entries
			leak := false
			secrets := [][]byte{}
			if A.sess != nil {
				secrets = append(secrets, []byte(A.sess.AccessToken), []byte(A.sess.IDToken), []byte(A.sess.RefreshToken), []byte(A.sess.Email), []byte(A.sess.User))
			} else {
				secrets = append(secrets, A.csrf.State, A.csrf.Nonce)
				if A.csrf.Verifier != "" {
					secrets = append(secrets, []byte(A.csrf.Verifier))
				}
			}
			hay := []string{}
			for _, ck := range A.cookies {
				hay = append(hay, ck[1])
				p := strings.Split(ck[1], "|")
				if dec, err := base64.URLEncoding.DecodeString(p[0]); err == nil {
					hay = append(hay, string(dec))
				}
			}
			if w.mr != nil {
				for _, k := range w.mr.Keys() {
					v, _ := w.mr.Get(k)
					hay = append(hay, v)
					// an entry must not be decryptable from what the store itself holds (its own key name)
					idx := strings.LastIndex(k, "-")
					if idx >= 0 {
						if kb, err := hex.DecodeString(k[idx+1:]); err == nil && (len(kb) == 16 || len(kb) == 24 || len(kb) == 32) {
							if ci, err := encryption.NewGCMCipher(kb); err == nil {
								if pt, err := ci.Decrypt([]byte(v)); err == nil {
									hay = append(hay, string(pt))
								}
							}
							if ci, err := encryption.NewCFBCipher(kb); err == nil {
								if pt, err := ci.Decrypt([]byte(v)); err == nil {
									hay = append(hay, string(pt))
								}
							}
						}
					}
				}
			}
			for _, h := range hay {
				for _, sct := range secrets {
					if len(sct) < 6 {
						continue
					}
					for _, enc := range []string{string(sct), base64.StdEncoding.EncodeToString(sct), base64.RawURLEncoding.EncodeToString(sct), hex.EncodeToString(sct)} {
						if strings.Contains(h, enc) {
							leak = true
						}
					}
				}
			}
			for _, c := range cs {
				op := vpS(c.In, "op")
				stride := vpI(c.In, "stride")
				instances, accepted, diff := 0, 0, 0
				adopted := 0
				var example string
				pairOp = op == "splice_fields" || op == "parts_recombine"
				try := func(hdr string) {
					instances++
					switch load(hdr) {
					case sameAsIssued:
						accepted++
					case different:
						accepted++
						diff++
						if example == "" {
							example = hdr
							if len(example) > 300 {
								example = example[:300] + "..."
							}
						}
					}
				}
				// replace cookie i's value and rebuild the header
				with := func(i int, val string) string {
					var p []string
					for k, ck := range A.cookies {
						if k == i {
							p = append(p, ck[0]+"="+val)
						} else {
							p = append(p, ck[0]+"="+ck[1])
						}
					}
					return strings.Join(p, "; ")
				}
				// the signed string is the concatenation of all parts: field operators work on the joined value and re-split it at the same lengths
				joined := ""
				for _, ck := range A.cookies {
					joined += ck[1]
				}
				resplit := func(j string) string {
					var p []string
					rest := j
					for k, ck := range A.cookies {
						n := len(ck[1])
						if k == len(A.cookies)-1 || n > len(rest) {
							n = len(rest)
						}
						p = append(p, ck[0]+"="+rest[:n])
						rest = rest[n:]
					}
					return strings.Join(p, "; ")
				}
				f := strings.Split(joined, "|")
				field := func(k int, s string) string {
					g := append([]string(nil), f...)
					g[k] = s
					return strings.Join(g, "|")
				}
				substField := func(k int) {
					for _, pos := range vpPositions(f[k], stride) {
						for _, rch := range vpReplSet {
							if f[k][pos] == rch {
								continue
							}
							b := []byte(f[k])
							b[pos] = rch
							try(resplit(field(k, string(b))))
						}
					}
				}
				switch op {
				case "subst_value":
					substField(0)
				case "subst_ts":
					substField(1)
				case "subst_sig":
					substField(2)
				case "trunc":
					for n := 0; n < len(joined); n++ {
						if stride > 1 && n%stride != 0 && n > 60 && n < len(joined)-60 {
							continue
						}
						try(resplit(joined[:n]))
					}
				case "extend":
					for k := 0; k < 3; k++ {
						for _, ext := range []string{"A", "=", "AAAA", "0", "|", "|0"} {
							try(resplit(field(k, f[k]+ext)))
						}
					}
				case "ts_edit":
					for _, ts := range []string{"0", "1", f[1] + "0", f[1][1:], fmt.Sprint(time.Now().Unix() + 1), fmt.Sprint(time.Now().Unix() - 1), fmt.Sprint(time.Now().Unix() + 100000), "-" + f[1], "+" + f[1], " " + f[1], f[1] + " ", "0" + f[1]} {
						try(resplit(field(1, ts)))
					}
				case "boundary_shift":
					for k := 1; k <= 3; k++ {
						if len(f[1]) > k {
							try(resplit(f[0] + f[1][:k] + "|" + f[1][k:] + "|" + f[2]))
						}
						if len(f[0]) > k {
							try(resplit(f[0][:len(f[0])-k] + "|" + f[0][len(f[0])-k:] + f[1] + "|" + f[2]))
						}
					}
				case "drop_separator":
					try(resplit(f[0] + f[1] + "|" + f[2]))
					try(resplit(f[0] + "|" + f[1] + f[2]))
					try(resplit(f[0] + f[1] + f[2]))
					try(resplit(f[0] + "||" + f[1] + "|" + f[2]))
				case "resign":
					rawv, err := base64.URLEncoding.DecodeString(f[0])
					if err == nil {
						for _, other := range []string{"another-secret-another-secret-xx", "0123456789abcdeF", strings.ToUpper(secret), secret + "x", ""} {
							if v, err := encryption.SignedValue(other, A.cookies[0][0], rawv, time.Now()); err == nil {
								try(resplit(v))
							}
						}
					}
				case "sigtrunc_ts_edit", "sigtrunc_subst_value":
					for n := 0; n <= len(f[2]); n++ {
						if op == "sigtrunc_ts_edit" {
							for _, ts := range []string{fmt.Sprint(time.Now().Unix() - 5), fmt.Sprint(time.Now().Unix() + 5), "1000000000"} {
								try(resplit(f[0] + "|" + ts + "|" + f[2][:n]))
							}
						} else {
							for _, pos := range []int{0, len(f[0]) / 2, len(f[0]) - 3} {
								b := []byte(f[0])
								if b[pos] != 'A' {
									b[pos] = 'A'
								} else {
									b[pos] = 'B'
								}
								try(resplit(string(b) + "|" + f[1] + "|" + f[2][:n]))
							}
						}
					}
				case "splice_fields":
					jb := ""
					for _, ck := range B.cookies {
						jb += ck[1]
					}
					fb := strings.Split(jb, "|")
					if len(fb) == 3 {
						for mask := 1; mask < 7; mask++ {
							g := []string{f[0], f[1], f[2]}
							for k := 0; k < 3; k++ {
								if mask&(1<<k) != 0 {
									g[k] = fb[k]
								}
							}
							try(resplit(strings.Join(g, "|")))
						}
					}
				case "transplant_name", "transplant_prefixed":
					// other names the proxy reads: session name, part names, CSRF names; B's names
					names := []string{w.name, w.name + "_0", w.name + "_1", w.name + "_csrf", B.cookies[0][0]}
					for _, from := range A.cookies {
						for _, nm := range names {
							if nm == from[0] {
								continue
							}
							val := from[1]
							if op == "transplant_prefixed" && strings.HasPrefix(from[0], nm) {
								val = from[0][len(nm):] + from[1] // name ++ value is what the MAC covers
							}
							// the credential under attack keeps its identity: the oracle still compares with A
							instances++
							raw := "GET / HTTP/1.1\r\nHost: " + vpHost + "\r\nCookie: " + nm + "=" + val + "\r\n\r\n"
							if req, err := http.ReadRequest(bufioReader(raw)); err == nil {
								func() {
									defer func() {
										if e := recover(); e != nil {
											panics++
										}
									}()
									// under the session name: must not load as a session
									if got, err := w.proxy.sessionStore.Load(w.storeReqRaw(req)); err == nil && got != nil && !(A.sess != nil && vpSessionsEqual(A.sess, got)) {
										accepted++
										diff++
										example = nm + "=" + val[:40]
									}
									// under any CSRF name: must not load as a CSRF unless it is the issued one
									if got, err := cookies.LoadCSRFCookie(req, nm, &w.opts.Cookie); err == nil && got != nil {
										if A.csrf == nil || !got.CheckOAuthState(encryption.HashNonce(A.csrf.State)) {
											accepted++
											diff++
											example = nm + "=" + val[:40]
										}
									}
								}()
							}
						}
					}
				case "concurrent_issue":
					// nothing is altered: 16 requests are issued sessions at the same time, again and again; every cookie set that was
					// handed out must decode to exactly the session it was issued for (never to a neighbour's)
					if A.csrf != nil || w.mr != nil {
						break
					}
					for round := 0; round < 200; round++ {
						const nconc = 32
						jars := make([]*vpJar, nconc)
						sess := make([]*sessionsapi.SessionState, nconc)
						for i := range jars {
							jars[i] = vpNewJar()
							sess[i] = vpMkSession(1000+round*nconc+i, 150+rng.Intn(1500), rng)
						}
						var wg sync.WaitGroup
						for i := range jars {
							wg.Add(1)
							go func(i int) {
								defer wg.Done()
								w.saveVia(jars[i], sess[i])
							}(i)
						}
						wg.Wait()
						for i := range jars {
							instances++
							got, err := w.proxy.sessionStore.Load(w.storeReq(jars[i]))
							if err != nil || got == nil {
								continue
							}
							accepted++
							if !vpSessionsEqual(got, sess[i]) {
								diff++
								if example == "" {
									example = fmt.Sprintf("cookie issued for %s decodes to %s", sess[i].Email, got.Email)
								}
							}
						}
					}
				case "parts_drop":
					for i := range A.cookies {
						var p []string
						for k, ck := range A.cookies {
							if k != i {
								p = append(p, ck[0]+"="+ck[1])
							}
						}
						try(strings.Join(p, "; "))
					}
				case "parts_dup":
					for i := range A.cookies {
						for k := range A.cookies {
							if i != k {
								try(with(k, A.cookies[i][1]))
							}
						}
						try(A.header() + "; " + A.cookies[i][0] + "=" + A.cookies[i][1])
					}
				case "parts_permute":
					n := len(A.cookies)
					perm := make([]int, n)
					var rec func(k int, used []bool)
					rec = func(k int, used []bool) {
						if k == n {
							ident := true
							var p []string
							for i := 0; i < n; i++ {
								if perm[i] != i {
									ident = false
								}
								p = append(p, A.cookies[i][0]+"="+A.cookies[perm[i]][1])
							}
							if !ident {
								try(strings.Join(p, "; "))
							}
							return
						}
						for i := 0; i < n; i++ {
							if !used[i] {
								used[i] = true
								perm[k] = i
								rec(k+1, used)
								used[i] = false
							}
						}
					}
					rec(0, make([]bool, n))
				case "known_plaintext_tail":
					// Sessions of the same shape whose last field ends at every offset inside a cipher block are issued until the
					// change of that field's last byte and of the frame checksum both fall into the last block; the ciphertext
					// of that block is then XORed with (old plaintext XOR new plaintext).
					for k := 0; k < 40 && instances < 3; k++ {
						L := 200
						switch cred {
						case "cookie2":
							L = thr[1] + 300
						case "cookie3":
							L = thr[2] + 300
						}
						s1 := vpMkSession(11, L, rng)
						s1.PreferredUsername = "svc-guest-" + strings.Repeat("x", k) + "1"
						s2 := *s1
						s2.PreferredUsername = "svc-guest-" + strings.Repeat("x", k) + "7"
						p1, err1 := s1.EncodeSessionState(vpPlainCipher{}, true)
						p2, err2 := s2.EncodeSessionState(vpPlainCipher{}, true)
						if err1 != nil || err2 != nil || len(p1) != len(p2) {
							continue
						}
						d0 := -1
						for i := range p1 {
							if p1[i] != p2[i] {
								d0 = i
								break
							}
						}
						if d0 < 0 || d0 < (len(p1)-1)/16*16 {
							continue // the difference starts before the last block: rewriting would garble what follows
						}
						j := vpNewJar()
						if _, _, err := w.saveVia(j, s1); err != nil {
							continue
						}
						var names []string
						var lens []int
						jv := ""
						for _, ck := range j.list() {
							names = append(names, ck.Name)
							lens = append(lens, len(ck.Value))
							jv += ck.Value
						}
						fv := strings.Split(jv, "|")
						if len(fv) != 3 {
							continue
						}
						raw, err := base64.URLEncoding.DecodeString(fv[0])
						if err != nil || len(raw) != 16+len(p1) {
							continue
						}
						for i := d0; i < len(p1); i++ {
							raw[16+i] ^= p1[i] ^ p2[i]
						}
						forged := base64.URLEncoding.EncodeToString(raw) + "|" + fv[1] + "|" + fv[2]
						var hp []string
						rest := forged
						for i, n := range names {
							m := lens[i]
							if i == len(names)-1 || m > len(rest) {
								m = len(rest)
							}
							hp = append(hp, n+"="+rest[:m])
							rest = rest[m:]
						}
						// (control) the untouched cookie loads s1: the plaintext reconstruction is the real one
						if got, err := w.proxy.sessionStore.Load(w.storeReq(j)); err != nil || !vpSessionsEqual(got, s1) {
							continue
						}
						try(strings.Join(hp, "; "))
					}
				case "strip_envelope":
					// the signed envelope removed: the payload alone, decoded or not, in every encoding the decoder might take
					name0 := A.cookies[0][0]
					forms := []string{f[0], f[0] + "|", f[0] + "||", f[0] + "|" + f[1], f[0] + "|" + f[1] + "|", "|" + f[1] + "|" + f[2]}
					if rawv, err := base64.URLEncoding.DecodeString(f[0]); err == nil {
						forms = append(forms, string(rawv), string(rawv)+"|"+f[1]+"|"+f[2], base64.StdEncoding.EncodeToString(rawv), base64.RawURLEncoding.EncodeToString(rawv),
							base64.RawStdEncoding.EncodeToString(rawv), hex.EncodeToString(rawv))
						if tp := strings.Split(string(rawv), "."); len(tp) == 3 {
							// ticket: v2.<id>.<secret> -> the pre-v2 spelling <id>.<secret>
							if id, err := base64.RawURLEncoding.DecodeString(tp[1]); err == nil {
								forms = append(forms, string(id)+"."+tp[2], "v1."+tp[1]+"."+tp[2], "v2."+string(id)+"."+tp[2])
							}
						}
					}
					for _, v := range forms {
						try(name0 + "=" + v)
					}
				case "planted":
					// a cookie the attacker put into the browser BEFORE the session was saved: a hand-made ticket / payload, unsigned or
					// signed with a key of their own.  After the save it must not load anything.
					name0 := A.cookies[0][0]
					tid := make([]byte, 16)
					tsec := make([]byte, 16)
					rng.Read(tid)
					rng.Read(tsec)
					id := name0 + "-" + hex.EncodeToString(tid)
					hand := []string{
						"v2." + base64.RawURLEncoding.EncodeToString([]byte(id)) + "." + base64.RawURLEncoding.EncodeToString(tsec),
						id + "." + base64.RawURLEncoding.EncodeToString(tsec),
					}
					var planted []string
					for _, h := range hand {
						planted = append(planted, h)
						for _, other := range []string{"another-secret-another-secret-xx", ""} {
							if v, err := encryption.SignedValue(other, name0, []byte(h), time.Now()); err == nil {
								planted = append(planted, v)
							}
						}
					}
					for _, pv := range planted {
						if A.csrf != nil {
							try(name0 + "=" + pv)
							continue
						}
						j := vpNewJar()
						j.applyCookie(&http.Cookie{Name: name0, Value: pv, Path: "/"})
						victim := vpMkSession(7, 200, rng)
						if _, _, err := w.saveVia(j, victim); err != nil {
							continue
						}
						if w.mr != nil {
							// the new session must not live under the key (nor be sealed with the secret) the planted cookie named
							if w.mr.Exists(id) {
								adopted++
								w.mr.Del(id)
							} else if ck := j.get(name0); ck != nil {
								if raw, err := base64.URLEncoding.DecodeString(strings.SplitN(ck.Value, "|", 2)[0]); err == nil &&
									strings.Contains(string(raw), base64.RawURLEncoding.EncodeToString(tsec)) {
									adopted++
								}
							}
						}
						try(name0 + "=" + pv)
						// (control) what the save handed out must load: otherwise this instance tested nothing
						if got, err := w.proxy.sessionStore.Load(w.storeReq(j)); err != nil || !vpSessionsEqual(got, victim) {
							instances--
						}
					}
				case "parts_recombine":
					if len(B.cookies) == len(A.cookies) {
						for mask := 1; mask < (1<<len(A.cookies))-1; mask++ {
							var p []string
							for i := range A.cookies {
								if mask&(1<<i) != 0 {
									p = append(p, A.cookies[i][0]+"="+B.cookies[i][1])
								} else {
									p = append(p, A.cookies[i][0]+"="+A.cookies[i][1])
								}
							}
							try(strings.Join(p, "; "))
						}
					}
				}
				if instances == 0 {
					// the operator could not be instantiated against what this implementation issues (e.g. the last-block rewrite
					// against an authenticated cipher): nothing was tested - not executable, neither held nor violated
					env.emit(vpOut{ID: c.ID, Err: "operator " + op + " has no instance for " + cred})
					continue
				}
				obs := map[string]interface{}{"instances": instances, "accepted": accepted, "acceptedDifferent": diff, "leak": leak, "panic": panics > 0, "adopted": adopted}
				env.emit(vpOut{ID: c.ID, Obs: obs, Conc: map[string]interface{}{"example_accepted_different": example, "cookies": len(A.cookies)}})
			}
		})
	})
}

func (w *vpWorld) storeReqRaw(req *http.Request) *http.Request {
	return addScope(req, w.opts.ReverseProxy)
}

// vpPlainCipher: the identity "cipher" - EncodeSessionState with it yields the plaintext the real cipher encrypts
type vpPlainCipher struct{}

func (vpPlainCipher) Encrypt(v []byte) ([]byte, error) { return v, nil }
func (vpPlainCipher) Decrypt(v []byte) ([]byte, error) { return v, nil }
