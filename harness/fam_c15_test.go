//go:build verif

package main

import (
	"encoding/json"
	"fmt"
	"math/rand"
	"net"
	"os"
	"sort"
	"strings"
	"sync"
	"testing"

	"github.com/oauth2-proxy/oauth2-proxy/v7/pkg/ip"
)

// vocabulary exported by TLC (spec/<family>.tla Vocab)
type vpVocab struct {
	Atoms map[string]string      `json:"atoms"`
	Raw   map[string]interface{} `json:"-"`
}

func vpLoadVocab() (*vpVocab, error) {
	p := os.Getenv("VP_VOCAB")
	v := &vpVocab{Atoms: map[string]string{}, Raw: map[string]interface{}{}}
	if p == "" {
		return v, nil
	}
	b, err := os.ReadFile(p)
	if err != nil {
		return v, err
	}
	if err := json.Unmarshal(b, v); err != nil {
		return v, err
	}
	json.Unmarshal(b, &v.Raw)
	return v, nil
}

// text concretises a sequence of atoms.
func (v *vpVocab) text(seq []string) string {
	var sb strings.Builder
	for _, a := range seq {
		t, ok := v.Atoms[a]
		if !ok {
			t = a
		}
		sb.WriteString(t)
	}
	return sb.String()
}

func vpSeq(x interface{}) []string {
	var out []string
	if l, ok := x.([]interface{}); ok {
		for _, e := range l {
			if s, ok := e.(string); ok {
				out = append(out, s)
			}
		}
	}
	return out
}

// worldCache builds one World per distinct configuration key.
type vpWorldCache struct {
	mu sync.Mutex
	m  map[string]*vpWorld
	e  map[string]error
}

func vpNewWorldCache() *vpWorldCache {
	return &vpWorldCache{m: map[string]*vpWorld{}, e: map[string]error{}}
}

func (c *vpWorldCache) get(key string, mk func() *vpCfg) (*vpWorld, error) {
	c.mu.Lock()
	defer c.mu.Unlock()
	if w, ok := c.m[key]; ok {
		return w, c.e[key]
	}
	w, err := vpNewWorld(mk())
	c.m[key] = w
	c.e[key] = err
	return w, err
}

func (c *vpWorldCache) closeAll() {
	for _, w := range c.m {
		if w != nil {
			w.close()
		}
	}
}

// groupBy groups case indices by a key, deterministic order.
func vpGroup(cases []vpCase, key func(c *vpCase) string) (keys []string, groups map[string][]*vpCase) {
	groups = map[string][]*vpCase{}
	for i := range cases {
		k := key(&cases[i])
		if _, ok := groups[k]; !ok {
			keys = append(keys, k)
		}
		groups[k] = append(groups[k], &cases[i])
	}
	sort.Strings(keys)
	return
}

func vpRunGroups(keys []string, groups map[string][]*vpCase, seed int64, f func(rng *rand.Rand, key string, cs []*vpCase)) {
	var wg sync.WaitGroup
	ch := make(chan string, len(keys))
	for _, k := range keys {
		ch <- k
	}
	close(ch)
	for i := 0; i < 16; i++ {
		wg.Add(1)
		go func(i int) {
			defer wg.Done()
			rng := rand.New(rand.NewSource(seed*7919 + int64(i)))
			for k := range ch {
				f(rng, k, groups[k])
			}
		}(i)
	}
	wg.Wait()
}

// ---------------------------------------------------------------------------------------------
// c15route: skip-auth routes and preflight

func vpRuleText(v *vpVocab, r map[string]interface{}) (text string, legacy bool) {
	pat := v.text(vpSeq(r["pat"]))
	if vpB(r, "l") {
		pat = "^" + pat
	}
	if vpB(r, "r") {
		pat = pat + "$"
	}
	if vpB(r, "legacy") {
		return pat, true
	}
	m := vpS(r, "m")
	switch {
	case vpB(r, "neg"):
		return m + "!=" + pat, false
	case m != "":
		return m + "=" + pat, false
	}
	return pat, false
}

func init() {
	vpRegister("c15route", func(t *testing.T, env *vpEnv) {
		voc, err := vpLoadVocab()
		if err != nil {
			t.Fatalf("vocab: %v", err)
		}
		keys, groups := vpGroup(env.cases, func(c *vpCase) string {
			rp := c.In["via"] == "xfu" || strings.HasPrefix(vpS(c.In, "via"), "rp_noise")
			return fmt.Sprintf("%s|%v|%v", vpJSON(c.In["rules"]), c.In["preflight"], rp)
		})
		vpRunGroups(keys, groups, env.seed, func(rng *rand.Rand, key string, cs []*vpCase) {
			first := cs[0]
			cfg := &vpCfg{Preflight: vpB(first.In, "preflight"), ReverseProxy: first.In["via"] == "xfu" || strings.HasPrefix(vpS(first.In, "via"), "rp_noise")}
			if rl, ok := first.In["rules"].([]interface{}); ok {
				for _, r := range rl {
					txt, legacy := vpRuleText(voc, r.(map[string]interface{}))
					if legacy {
						cfg.SkipAuthRegex = append(cfg.SkipAuthRegex, txt)
					} else {
						cfg.SkipAuthRoutes = append(cfg.SkipAuthRoutes, txt)
					}
				}
			}
			// an authorisation rule is in force (addresses @example.com): "refused" credentials are sessions of bob@other.org,
			// minted by a permissive twin sharing the cookie secret (a restart with changed rules)
			cfg.EmailDomains = []string{"example.com"}
			w, err := vpNewWorld(cfg)
			if err != nil {
				for _, c := range cs {
					env.emit(vpOut{ID: c.ID, Err: "world: " + err.Error()})
				}
				return
			}
			defer w.close()
			refusedCookie := ""
			for _, c := range cs {
				if vpS(c.In, "cred") == "refused" && refusedCookie == "" {
					w0, err := vpNewWorld(&vpCfg{})
					if err == nil {
						j := vpNewJar()
						if cb, err := w0.login(j, "bob", ""); err == nil && w0.sessionCookieEffect(cb) == "set" {
							refusedCookie = j.header()
						}
						w0.close()
					}
					if refusedCookie == "" {
						refusedCookie = "-"
					}
				}
			}
			for _, c := range cs {
				if vpS(c.In, "cred") == "refused" && refusedCookie == "-" {
					env.emit(vpOut{ID: c.ID, Err: "twin login failed"})
					continue
				}
				uri := voc.text(vpSeq(c.In["path"])) + voc.text(vpSeq(c.In["query"])) + voc.text(vpSeq(c.In["frag"]))
				req := vpReq{Method: vpS(c.In, "method"), Target: uri}
				switch vpS(c.In, "via") {
				case "xfu":
					req.Target = "/zz-decoy"
					req.Header = append(req.Header, [2]string{"X-Forwarded-Uri", uri})
				case "noise_get", "noise_options", "rp_noise_get", "rp_noise_options":
					via := vpS(c.In, "via")
					m := "GET"
					if strings.HasSuffix(via, "options") {
						m = "OPTIONS"
					}
					for _, h := range []string{"X-Forwarded-Method", "X-Http-Method-Override", "X-Original-Method", "X-Method-Override"} {
						req.Header = append(req.Header, [2]string{h, m})
					}
					if strings.HasPrefix(via, "rp_") {
						req.Target = "/zz-decoy"
						req.Header = append(req.Header, [2]string{"X-Forwarded-Uri", uri})
					} else {
						for _, h := range []string{"X-Original-Url", "X-Rewrite-Url", "X-Forwarded-Path", "X-Original-Uri"} {
							req.Header = append(req.Header, [2]string{h, voc.text([]string{"sl", "a"})})
						}
					}
				case "decoy":
					// reverse-proxy mode is off: a forwarded URI that would match must be ignored
					req.Header = append(req.Header, [2]string{"X-Forwarded-Uri", voc.text([]string{"sl", "a"})})
				}
				if vpS(c.In, "cred") == "refused" {
					req.Cookie = refusedCookie
				}
				r := w.do(req)
				obs := map[string]interface{}{"exempt": r.UpHits > 0, "class": w.classify(r), "status": r.Status}
				env.emit(vpOut{ID: c.ID, Obs: obs, Conc: map[string]interface{}{"method": req.Method, "target": req.Target, "headers": req.Header,
					"skip_auth_routes": cfg.SkipAuthRoutes, "skip_auth_regex": cfg.SkipAuthRegex, "preflight": cfg.Preflight, "reverse_proxy": cfg.ReverseProxy}})
			}
		})
	})
}

// ---------------------------------------------------------------------------------------------
// c15net: trusted IPs (NetSet function level + end to end)

// vpAddrText concretises an abstract address: universe index x (0..63) or "below"/"above", in a notation.
func vpAddrText(x int, notation string) string {
	// universe embedded at 192.0.2.64/26 (v4), ::ffff:192.0.2.64/122 (mapped), 2001:db8::40/122 (v6)
	switch notation {
	case "v4":
		return fmt.Sprintf("192.0.2.%d", 64+x)
	case "mapped":
		return fmt.Sprintf("::ffff:192.0.2.%d", 64+x)
	case "mappedhex":
		return fmt.Sprintf("::ffff:c000:2%02x", 64+x)
	case "v6":
		return fmt.Sprintf("2001:db8::%x", 64+x)
	case "garbage":
		return "unknown, 203.0.113.7"
	}
	return ""
}

func vpNetText(base, plen int, fam string) string {
	switch fam {
	case "v4":
		return fmt.Sprintf("192.0.2.%d/%d", 64+base, 26+plen)
	case "v6":
		return fmt.Sprintf("2001:db8::%x/%d", 64+base, 122+plen)
	case "all4":
		return "0.0.0.0/0"
	case "all6":
		return "::/0"
	case "host4": // single address without a prefix length
		return fmt.Sprintf("192.0.2.%d", 64+base)
	case "host6":
		return fmt.Sprintf("2001:db8::%x", 64+base)
	}
	return ""
}

func init() {
	vpRegister("c15net", func(t *testing.T, env *vpEnv) {
		keys, groups := vpGroup(env.cases, func(c *vpCase) string {
			return fmt.Sprintf("%s|%s|%s", vpJSON(c.In["nets"]), vpS(c.In, "source"), vpS(c.In, "level"))
		})
		vpRunGroups(keys, groups, env.seed, func(rng *rand.Rand, key string, cs []*vpCase) {
			first := cs[0]
			var nets []string
			if nl, ok := first.In["nets"].([]interface{}); ok {
				for _, n := range nl {
					nm := n.(map[string]interface{})
					nets = append(nets, vpNetText(vpI(nm, "base"), vpI(nm, "len"), vpS(nm, "fam")))
				}
			}
			level := vpS(first.In, "level")
			source := vpS(first.In, "source")
			var w *vpWorld
			var ns *ip.NetSet
			if level == "fn" {
				ns = ip.NewNetSet()
				for _, n := range nets {
					if pn := ip.ParseIPNet(n); pn != nil {
						ns.AddIPNet(*pn)
					} else {
						for _, c := range cs {
							env.emit(vpOut{ID: c.ID, Err: "ParseIPNet rejected " + n})
						}
						return
					}
				}
			} else {
				cfg := &vpCfg{TrustedIPs: nets}
				if source != "remote" {
					cfg.ReverseProxy = true
					cfg.RealIPHeader = source
				}
				var err error
				w, err = vpNewWorld(cfg)
				if err != nil {
					for _, c := range cs {
						env.emit(vpOut{ID: c.ID, Err: "world: " + err.Error()})
					}
					return
				}
				defer w.close()
			}
			for _, c := range cs {
				addr := vpAddrText(vpI(c.In, "addr"), vpS(c.In, "notation"))
				var trusted bool
				var panicked string
				conc := map[string]interface{}{"nets": nets, "addr": addr, "source": source}
				if level == "fn" {
					func() {
						defer func() {
							if e := recover(); e != nil {
								panicked = fmt.Sprint(e)
							}
						}()
						trusted = ns.Has(net.ParseIP(addr))
					}()
				} else {
					req := vpReq{Target: "/private"}
					if source == "remote" {
						if strings.Contains(addr, ":") {
							req.RemoteAddr = "[" + addr + "]:40000"
						} else {
							req.RemoteAddr = addr + ":40000"
						}
					} else {
						req.RemoteAddr = "203.0.113.9:40000"
						if vpS(c.In, "peer") == "trusted" {
							// the directly connected peer sits inside the first configured network
							n0 := first.In["nets"].([]interface{})[0].(map[string]interface{})
							if vpS(n0, "fam") == "v6" {
								req.RemoteAddr = "[" + vpAddrText(vpI(n0, "base"), "v6") + "]:40000"
							} else {
								req.RemoteAddr = vpAddrText(vpI(n0, "base"), "v4") + ":40000"
							}
						}
						if vpS(c.In, "notation") != "absent" {
							req.Header = append(req.Header, [2]string{source, addr})
						}
					}
					r := w.do(req)
					trusted = r.UpHits > 0
					panicked = r.Panic
					conc["remoteAddr"] = req.RemoteAddr
				}
				obs := map[string]interface{}{"trusted": trusted, "panic": panicked != ""}
				env.emit(vpOut{ID: c.ID, Obs: obs, Conc: conc})
			}
		})
	})
}
