CONSTANTS
  Reqs = {1, 2}
  Mode = "ok"
  StartStale = TRUE
  LockExpires = FALSE
  MaxRetry = 1
  UseLock = TRUE
  ReloadAfterLock = TRUE
  SignOuts = {2}
  SignOutRefreshes = FALSE
INIT Init
NEXT Next
INVARIANTS SignedOutStays
CHECK_DEADLOCK FALSE
