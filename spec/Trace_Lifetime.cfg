SPECIFICATION Spec
INVARIANTS Mon_Lifetime Mon_Future Mon_MaxAge Mon_TTL
POSTCONDITION TraceAccepted
CHECK_DEADLOCK FALSE
