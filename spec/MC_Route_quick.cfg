CONSTANTS
  MaxPath = 4
  Tier = "quick"
INIT Init
NEXT Next
INVARIANTS EmitCase
CHECK_DEADLOCK FALSE
