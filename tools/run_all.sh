#!/bin/bash
# runs every registered quick (or $1) check on the current tree, sequentially; prints one line per property
tier="${1:-quick}"
cd "$(dirname "$0")/.." && mkdir -p .work
for p in C01 C02 C03 C04 C05 C06 C07 C08 C09 C10 C11 C12 C13 C14 C15 C16 C17 C18 C19 C20; do
  s=$(date +%s)
  ./check $p --tier $tier > .work/all_$p.log 2>&1; rc=$?
  echo "$p rc=$rc $(( $(date +%s) - s ))s $(grep -c '^VIOLATION' .work/all_$p.log) violations $(grep -c '^KNOWN-FINDING' .work/all_$p.log) known"
done
