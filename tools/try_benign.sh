#!/bin/bash
# usage: tools/try_benign.sh <patch.diff> <tag> [checks...]
# A property-preserving change must not make any check alarm: applies the patch to a scratch worktree of /repo, runs the quick tier
# of every check (or the listed ones) from a snapshot of /verif against it, prints one line per check that does not exit 0.
set -u
patch="$1"; tag="$2"; shift 2
checks="${*:-C01 C02 C03 C04 C05 C06 C07 C08 C09 C10 C11 C12 C13 C14 C15 C16 C17 C18 C19 C20}"
ROOT="$(cd "$(dirname "$0")/.." && pwd)"
wt=/tmp/bn_wt_$tag; snap=/tmp/bn_verif_$tag
git -C /repo worktree remove --force $wt 2>/dev/null
git -C /repo worktree add -q --detach $wt HEAD || exit 2
git -C $wt apply "$patch" || { echo "$tag: patch does not apply"; git -C /repo worktree remove --force $wt; exit 2; }
rm -rf $snap; mkdir -p $snap; rsync -a --exclude .work --exclude .git "$ROOT/" $snap/
cd $snap; mkdir -p .work
bad=0
for p in $checks; do
  VERIF_REPO=$wt VERIF_EVIDENCE_DIR=$snap/.work/ev VERIF_REPLAY_DIR=$snap/.work/rp ./check $p --tier quick > .work/bn_$p.log 2>&1; rc=$?
  if [ $rc -ne 0 ]; then
    bad=$((bad+1)); echo "$tag $p rc=$rc $(grep -c '^VIOLATION' .work/bn_$p.log) violations: $(grep -m1 -E '^(VIOLATION|NO-VERDICT)' .work/bn_$p.log | cut -c1-160)"
    mkdir -p "$ROOT/.work/benign/$tag"; cp .work/bn_$p.log "$ROOT/.work/benign/$tag/"; cp -r .work/rp/$p "$ROOT/.work/benign/$tag/rp_$p" 2>/dev/null
  fi
done
echo "$tag: $bad checks alarmed"
cd /; git -C /repo worktree remove --force $wt; rm -rf $snap
