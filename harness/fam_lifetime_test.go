//go:build verif

package main

import (
	"net/url"
	"fmt"
	"encoding/base64"
	"strings"
	"sync"
	"testing"
	"time"

	"github.com/oauth2-proxy/oauth2-proxy/v7/pkg/encryption"
)

// lifetime: behaviours replayed on a real-time grid (1 tick = 1 s, steps at T0+k+0.5 s). No property logic here:
// every step is recorded as an event; Trace_Lifetime.tla judges the events.

type vpLiveB struct {
	c     *vpCase
	w     *vpWorld
	jar   *vpJar
	steps []map[string]interface{}
	byTick map[int]*vpStep
	user   string
	key   string
	dead  bool
}

func vpResign(secret, name, value string, ts time.Time) string {
	parts := strings.Split(value, "|")
	if len(parts) != 3 {
		return value
	}
	raw, err := base64.URLEncoding.DecodeString(parts[0])
	if err != nil {
		return value
	}
	v, err := encryption.SignedValue(secret, name, raw, ts)
	if err != nil {
		return value
	}
	return v
}

func init() {
	vpRegister("lifetime", func(t *testing.T, env *vpEnv) {
		const batch = 1000
		worlds := vpNewWorldCache()
		defer worlds.closeAll()
		for start := 0; start < len(env.cases); start += batch {
			end := start + batch
			if end > len(env.cases) {
				end = len(env.cases)
			}
			var bs []*vpLiveB
			maxTick := 0
			for i := start; i < end; i++ {
				c := &env.cases[i]
				cm := vpM(c.In, "cfg")
				g := vpM(cm, "grid")
				E, R := vpI(g, "E"), vpI(g, "R")
				mode := vpS(cm, "mode")
				key := string(c.Cfg)
				w, err := worlds.get(key, func() *vpCfg { return &vpCfg{Store: vpS(cm, "store"), Expire: &E, Refresh: R, Htpasswd: mode == "form"} })
				if err != nil {
					env.emit(vpOut{ID: c.ID, Err: "world: " + err.Error()})
					continue
				}
				switch mode {
				case "norefresh":
					w.idp.issueRefresh = false
				case "failvalid":
					w.idp.refreshMode = "fail"
				}
				b := &vpLiveB{c: c, w: w, jar: vpNewJar(), byTick: map[int]*vpStep{}, key: key}
				for si := range c.Steps {
					st := &c.Steps[si]
					tk := vpI(st.Args, "tick")
					b.byTick[tk] = st
					if tk > maxTick {
						maxTick = tk
					}
				}
				bs = append(bs, b)
			}
			T0 := time.Now().Truncate(time.Second).Add(2 * time.Second)
			for k := 0; k <= maxTick; k++ {
				at := T0.Add(time.Duration(k)*time.Second + 500*time.Millisecond)
				time.Sleep(time.Until(at))
				if k > 0 {
					seen := map[*vpWorld]bool{}
					for _, b := range bs {
						if b.w.mr != nil && !b.w.mrShared && !seen[b.w] {
							seen[b.w] = true
							b.w.mr.FastForward(time.Second)
						}
					}
				}
				var wg sync.WaitGroup
				ch := make(chan *vpLiveB, len(bs))
				for _, b := range bs {
					if _, ok := b.byTick[k]; ok && !b.dead {
						ch <- b
					}
				}
				close(ch)
				for i := 0; i < 16; i++ {
					wg.Add(1)
					go func() {
						defer wg.Done()
						for b := range ch {
							st := b.byTick[k]
							w := b.w
							ev := map[string]interface{}{"kind": st.A, "tick": k, "served": false, "refreshed": false, "maxAge": -1, "ttl": -1, "offset": 0}
							sessMaxAge := func(r *vpResp) {
								for _, ck := range r.Cookies {
									if w.isSessionCookieName(ck.Name) && ck.Value != "" && ck.MaxAge > 0 {
										ev["maxAge"] = ck.MaxAge
									}
								}
							}
							keysBefore := map[string]bool{}
							if w.mr != nil {
								for _, kk := range w.mr.Keys() {
									keysBefore[kk] = true
								}
							}
							switch st.A {
							case "login":
								// every behaviour signs in as a user of its own, so that the provider's refresh grants can be attributed
								if vpS(vpM(b.c.In, "cfg"), "mode") == "form" {
									// a session from the htpasswd sign-in form: no tokens, nothing a provider could ever refresh
									form := url.Values{"username": {"hpuser"}, "password": {"hppass"}}
									cb := w.do(vpReq{Method: "POST", Target: w.prefix() + "/sign_in", Body: form.Encode(), Form: true})
									b.jar.applyAll(cb)
									if w.sessionCookieEffect(cb) != "set" {
										b.dead = true
										ev["dead"] = true
										break
									}
									b.user = "-form-"
									ev["served"] = true
									sessMaxAge(cb)
									if w.mr != nil {
										if tk := b.jar.get(w.name); tk != nil {
											if id := vpTicketID(tk.Value); id != "" && w.mr.Exists(id) {
												ev["ttl"] = int(w.mr.TTL(id) / time.Second)
											}
										}
									}
									break
								}
								b.user = fmt.Sprintf("lt-%d", b.c.ID)
								w.idp.addUser(b.user, vpUser{Sub: "sub-" + b.user, Email: b.user + "@example.com", Groups: []string{"g1"}, Username: b.user})
								cb, err := w.login(b.jar, b.user, "")
								if err != nil || w.sessionCookieEffect(cb) != "set" {
									b.dead = true
									ev["dead"] = true
									break
								}
								ev["served"] = true
								sessMaxAge(cb)
								if w.mr != nil {
									// the entry written by this login (other behaviours share the store: find it through the ticket)
									if tk := b.jar.get(w.name); tk != nil {
										if id := vpTicketID(tk.Value); id != "" && w.mr.Exists(id) {
											ev["ttl"] = int(w.mr.TTL(id) / time.Second)
										}
									}
								}
							case "request":
								n0 := w.idp.refreshGrants(b.user)
								r := w.get(b.jar, "/private")
								ev["served"] = r.UpHits > 0
								// "last refreshed" is what the PROVIDER did: a refresh grant answered with new tokens for this session - not whatever
								// makes the proxy hand out a cookie with a newer stamp
								refreshed := w.idp.refreshGrants(b.user) > n0
								ev["refreshed"] = refreshed
								ev["reissued"] = w.sessionCookieEffect(r) == "set"
								sessMaxAge(r)
								if refreshed && w.mr != nil {
									if tk := b.jar.get(w.name); tk != nil {
										if id := vpTicketID(tk.Value); id != "" && w.mr.Exists(id) {
											ev["ttl"] = int(w.mr.TTL(id) / time.Second)
										}
									}
								}
							case "forged":
								off := vpI(st.Args, "offset")
								ev["offset"] = off
								ck := b.jar.get(w.name)
								if ck == nil {
									ev["dead"] = true
									break
								}
								forged := vpResign(w.secret, w.name, ck.Value, time.Now().Add(time.Duration(off)*time.Second))
								r := w.do(vpReq{Target: "/private", Cookie: w.name + "=" + forged})
								ev["served"] = r.UpHits > 0
							}
							off := time.Since(T0) - time.Duration(k)*time.Second
							ev["t_ms"] = int(off / time.Millisecond)
							ev["late"] = off < 150*time.Millisecond || off > 900*time.Millisecond
							b.steps = append(b.steps, ev)
						}
					}()
				}
				wg.Wait()
			}
			for _, b := range bs {
				env.emit(vpOut{ID: b.c.ID, Steps: b.steps})
			}
		}
	})
}

// vpTicketID extracts the store key from a signed ticket cookie value (v2.<b64 id>.<b64 secret>).
func vpTicketID(cookieValue string) string {
	parts := strings.Split(cookieValue, "|")
	if len(parts) != 3 {
		return ""
	}
	raw, err := base64.URLEncoding.DecodeString(parts[0])
	if err != nil {
		return ""
	}
	tp := strings.Split(string(raw), ".")
	if len(tp) != 3 || tp[0] != "v2" {
		return ""
	}
	id, err := base64.RawURLEncoding.DecodeString(tp[1])
	if err != nil {
		return ""
	}
	return string(id)
}
