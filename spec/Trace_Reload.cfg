SPECIFICATION Spec
INVARIANTS Mon_Explainable Mon_Completes
POSTCONDITION TraceAccepted
CHECK_DEADLOCK FALSE
