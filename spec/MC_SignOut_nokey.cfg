CONSTANTS
  MaxReqs = 1
  Stores = {"redis"}
  DomainCfgs = {"none"}
  DeleteKey = FALSE
INIT Init
NEXT Next
INVARIANTS C11_Ended
CHECK_DEADLOCK FALSE
