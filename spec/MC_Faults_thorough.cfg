CONSTANTS
  Pairs = TRUE
INIT Init
NEXT Next
INVARIANTS EmitCase
CHECK_DEADLOCK FALSE
