//go:build verif

package main

import (
	"crypto/sha256"
	"encoding/base64"
	"encoding/hex"
	"fmt"
	mrand "math/rand"
	"net/url"
	"strings"
	"sync"
	"testing"
	"time"

	"github.com/oauth2-proxy/oauth2-proxy/v7/pkg/encryption"
	"github.com/vmihailenco/msgpack/v5"
)

type vpCSRFPlain struct {
	State    []byte `msgpack:"s,omitempty"`
	Nonce    []byte `msgpack:"n,omitempty"`
	Verifier string `msgpack:"cv,omitempty"`
}

// vpOpenCSRF decrypts a CSRF cookie value with the configured secret (the harness knows it).
func vpOpenCSRF(secret, value string) (*vpCSRFPlain, error) {
	parts := strings.Split(value, "|")
	if len(parts) != 3 {
		return nil, fmt.Errorf("not a signed value")
	}
	raw, err := base64.URLEncoding.DecodeString(parts[0])
	if err != nil {
		return nil, err
	}
	// the harness reads the cookie the way the proxy wrote it; both ciphers the code base has are tried (the authenticated one first:
	// a stream cipher "opens" anything), so that a change of the
	// cookie's encryption does not blind the harness (if neither opens it, the ghost knowledge is gone: no verdict, never a violation)
	var lastErr error
	for _, mk := range []func([]byte) (encryption.Cipher, error){encryption.NewGCMCipher, encryption.NewCFBCipher} {
		c, err := mk(encryption.SecretBytes(secret))
		if err != nil {
			lastErr = err
			continue
		}
		dec, err := c.Decrypt(raw)
		if err != nil {
			lastErr = err
			continue
		}
		out := &vpCSRFPlain{}
		if err := msgpack.Unmarshal(dec, out); err != nil {
			lastErr = err
			continue
		}
		return out, nil
	}
	return nil, lastErr
}

// vpMutateSigned applies a labelled mutation to a signed cookie value "b64|ts|sig" issued under name.
func vpMutateSigned(value, mut, name string, rng *mrand.Rand) string {
	parts := strings.Split(value, "|")
	if len(parts) != 3 {
		return value
	}
	flip := func(s string) string {
		if s == "" {
			return s
		}
		b := []byte(s)
		// never the last sextet: its low bits may be padding that base64 decoding ignores, which would leave the
		// decoded bytes (and therefore the credential) unchanged
		n := len(b) - 2
		if n < 1 {
			n = 1
		}
		i := rng.Intn(n)
		if b[i] != 'A' {
			b[i] = 'A'
		} else {
			b[i] = 'B'
		}
		return string(b)
	}
	switch mut {
	case "tampered_value":
		parts[0] = flip(strings.TrimRight(parts[0], "=")) + strings.Repeat("=", len(parts[0])-len(strings.TrimRight(parts[0], "=")))
	case "tampered_sig":
		parts[2] = flip(strings.TrimRight(parts[2], "=")) + strings.Repeat("=", len(parts[2])-len(strings.TrimRight(parts[2], "=")))
	case "expired_ts":
		parts[1] = "1000000000"
	case "resigned":
		raw, err := base64.URLEncoding.DecodeString(parts[0])
		if err == nil {
			if v, err := encryption.SignedValue("another-secret-another-secret-xx", name, raw, time.Now()); err == nil {
				return v
			}
		}
	}
	return strings.Join(parts, "|")
}

type vpLoginRec struct {
	b         string
	location  string
	state     string
	nonce     string
	challenge string
	method    string
	ckName    string
	ckValue   string
	code      string
	plain     *vpCSRFPlain
}

var vpSeenVerifiers sync.Map

func vpUnreserved(s string) bool {
	for _, r := range s {
		if !(r >= 'a' && r <= 'z' || r >= 'A' && r <= 'Z' || r >= '0' && r <= '9' || r == '-' || r == '.' || r == '_' || r == '~') {
			return false
		}
	}
	return true
}

// leaked: does any secret of any login of this behaviour appear in clear in the response?
func vpLeaks(r *vpResp, recs []*vpLoginRec, pkce string) bool {
	var hay strings.Builder
	for k, vs := range r.Header {
		for _, v := range vs {
			hay.WriteString(k + ": " + v + "\n")
		}
	}
	hay.Write(r.Body)
	h := hay.String()
	for _, l := range recs {
		if l == nil || l.plain == nil {
			continue
		}
		for _, sec := range [][]byte{l.plain.State, l.plain.Nonce} {
			if len(sec) == 0 {
				continue
			}
			for _, enc := range []string{string(sec), base64.RawURLEncoding.EncodeToString(sec), base64.StdEncoding.EncodeToString(sec),
				base64.URLEncoding.EncodeToString(sec), hex.EncodeToString(sec)} {
				if strings.Contains(h, enc) {
					return true
				}
			}
		}
		if pkce == "S256" && l.plain.Verifier != "" && strings.Contains(h, l.plain.Verifier) {
			return true
		}
	}
	return false
}

func init() {
	vpRegister("login", func(t *testing.T, env *vpEnv) {
		keys, groups := vpGroup(env.cases, func(c *vpCase) string { return string(c.Cfg) })
		vpRunGroups(keys, groups, env.seed, func(rng *mrand.Rand, key string, cs []*vpCase) {
			opt := vpM(map[string]interface{}{"o": cs[0].In["opt"]}, "o")
			pkce := vpS(opt, "pkce")
			cfg := &vpCfg{CSRFPerRequest: vpB(opt, "perReq"), EncodeState: vpB(opt, "encodeState"), PKCE: pkce, SkipNonce: vpB(opt, "skipNonce"), AdvertisePKCE: vpS(opt, "advertise")}
			w, err := vpNewWorld(cfg)
			if err != nil {
				for _, c := range cs {
					env.emit(vpOut{ID: c.ID, Err: "world: " + err.Error()})
				}
				return
			}
			defer w.close()
			w.idp.nonceMode = vpS(opt, "idpNonce")
			if w.idp.nonceMode == "replay" {
				// the provider hands out, byte for byte, the ID token of an EARLIER login that this proxy accepted (valid signature,
				// not expired, carrying that earlier login's nonce)
				w.idp.nonceMode = "echo"
				j0 := vpNewJar()
				cb, err := w.login(j0, "alice", "")
				if err != nil || w.sessionCookieEffect(cb) != "set" || w.get(j0, "/private").UpHits == 0 {
					for _, c := range cs {
						env.emit(vpOut{ID: c.ID, Err: "replay mode: the first login did not succeed"})
					}
					return
				}
				w.idp.mu.Lock()
				w.idp.replayToken = w.idp.lastIDToken
				w.idp.nonceMode = "replay"
				w.idp.mu.Unlock()
			}
			// "other": the hashed nonce of an unrelated login's authorization request
			{
				r := w.startLogin(vpNewJar(), "")
				if u, err := url.Parse(r.Location); err == nil {
					w.idp.otherNonce = u.Query().Get("nonce")
				}
				if w.idp.otherNonce == "" {
					w.idp.otherNonce = "bm90LXRoaXMtbG9naW4"
				}
			}
			for _, c := range cs {
				jars := map[string]*vpJar{"b1": vpNewJar(), "b2": vpNewJar()}
				recs := []*vpLoginRec{nil} // 1-based
				var steps []map[string]interface{}
				ghostLost := ""
				var conc []interface{}
				for _, st := range c.Steps {
					obs := map[string]interface{}{}
					switch st.A {
					case "start":
						b := vpS(st.Args, "b")
						jar := jars[b]
						r := w.startLogin(jar, "/after/"+b)
						rec := &vpLoginRec{b: b, location: r.Location}
						obs["redirectsToIdP"] = w.classify(r) == "idp_redirect"
						if u, err := url.Parse(r.Location); err == nil {
							q := u.Query()
							rec.state, rec.nonce, rec.challenge, rec.method = q.Get("state"), q.Get("nonce"), q.Get("code_challenge"), q.Get("code_challenge_method")
						}
						for _, ck := range r.Cookies {
							if w.isCSRFCookieName(ck.Name) && ck.Value != "" {
								rec.ckName, rec.ckValue = ck.Name, ck.Value
							}
						}
						obs["csrfCookieSet"] = rec.ckValue != ""
						obs["nonceSent"] = rec.nonce != ""
						if rec.method == "" {
							obs["challenge"] = "none"
						} else {
							obs["challenge"] = rec.method
						}
						if pl, err := vpOpenCSRF(w.secret, rec.ckValue); err == nil {
							rec.plain = pl
						} else if rec.ckValue != "" {
							ghostLost = "cannot open the CSRF cookie the proxy set (" + err.Error() + "): nonce / verifier unknown to the harness"
						}
						ver := "none"
						if rec.plain != nil && (rec.plain.Verifier != "" || rec.challenge != "") {
							v := rec.plain.Verifier
							ver = "ok"
							want := v
							if rec.method == "S256" {
								h := sha256.Sum256([]byte(v))
								want = base64.RawURLEncoding.EncodeToString(h[:])
							}
							_, seen := vpSeenVerifiers.LoadOrStore(v, true)
							switch {
							case len(v) < 43 || len(v) > 128:
								ver = "bad:length"
							case !vpUnreserved(v):
								ver = "bad:charset"
							case want != rec.challenge:
								ver = "bad:challenge"
							case seen:
								ver = "bad:repeated"
							}
						}
						obs["verifier"] = ver
						if user := map[string]string{"b1": "alice", "b2": "bob"}[b]; true {
							code, _, err := w.idp.authorize(r.Location, user)
							if err == nil {
								rec.code = code
							}
						}
						recs = append(recs, rec)
						obs["leak"] = vpLeaks(r, recs, pkce)
						conc = append(conc, map[string]interface{}{"start": b, "csrf_cookie": rec.ckName, "location": r.Location})
					case "callback":
						args := st.Args
						s := vpI(args, "state")
						cIdx := vpI(args, "code")
						kind := vpS(args, "kind")
						if s >= len(recs) || cIdx >= len(recs) {
							obs["diverged"] = true
							break
						}
						srec := recs[s]
						state := srec.state
						if sm := vpS(args, "stateMut"); sm == "head" || sm == "tail" {
							// flip the first character of the nonce part of the state (inside the prefix the per-request cookie
							// name is derived from) or its last character (outside that prefix)
							raw := state
							if cfg.EncodeState {
								if dec, err := base64.RawURLEncoding.DecodeString(state); err == nil {
									raw = string(dec)
								}
							}
							bs := []byte(raw)
							pos := 0
							if sm == "tail" {
								pos = strings.Index(raw, ":") - 2 // not the last sextet (padding bits), see vpMutateSigned
							}
							if pos >= 0 && pos < len(bs) {
								if bs[pos] != 'A' {
									bs[pos] = 'A'
								} else {
									bs[pos] = 'B'
								}
							}
							state = string(bs)
							if cfg.EncodeState {
								state = base64.RawURLEncoding.EncodeToString(bs)
							}
						}
						var cookieHdr string
						jar := jars[vpS(args, "b")]
						// the model's view of the environment must be the real one, otherwise the rest of the behaviour says
						// nothing about the property (DESIGN 2.4: diverged)
						if c := w.idp.codeUnused(recs[cIdx].code); c != vpB(args, "codeFresh") {
							obs["diverged"] = true
							break
						}
						if kind == "honest" {
							cookieHdr = jar.header()
							var held []int
							for _, ck := range jar.list() {
								if ck.Name != srec.ckName {
									continue
								}
								for li := 1; li < len(recs); li++ {
									if recs[li].ckValue == ck.Value {
										held = append(held, li)
									}
								}
							}
							var want []int
							if cl, ok := args["cookies"].([]interface{}); ok {
								for _, e := range cl {
									want = append(want, vpI(e.(map[string]interface{}), "val"))
								}
							}
							if fmt.Sprint(held) != fmt.Sprint(want) {
								obs["diverged"] = true
								break
							}
						} else {
							var parts []string
							if cl, ok := args["cookies"].([]interface{}); ok {
								for _, e := range cl {
									em := e.(map[string]interface{})
									v := vpI(em, "val")
									if v >= len(recs) {
										continue
									}
									val := vpMutateSigned(recs[v].ckValue, vpS(em, "mut"), srec.ckName, rng)
									parts = append(parts, srec.ckName+"="+val)
								}
							}
							// the browser sends ALL its cookies: a session cookie from an earlier completed login travels with the callback
							for _, ck := range jar.list() {
								if w.isSessionCookieName(ck.Name) {
									parts = append(parts, ck.Name+"="+ck.Value)
								}
							}
							cookieHdr = strings.Join(parts, "; ")
						}
						before := len(w.idp.snapshotCalls())
						r := w.callbackRaw(cookieHdr, recs[cIdx].code, state)
						others := 0
						for _, ck := range r.Cookies {
							if w.isCSRFCookieName(ck.Name) && ck.Name != srec.ckName && (ck.MaxAge < 0 || ck.Value == "") {
								if kind != "honest" || jar.get(ck.Name) != nil {
									others++
								}
							}
						}
						obs["clearedOthers"] = others
						if kind == "honest" {
							jar.applyAll(r)
						}
						obs["session"] = w.sessionCookieEffect(r)
						obs["status"] = r.Status
						obs["errorPage"] = r.Status >= 400
						obs["leak"] = vpLeaks(r, recs, pkce)
						// the verifier presented at redemption is exactly the one of the cookie's login
						vok := true
						for _, call := range w.idp.snapshotCalls()[before:] {
							if call.Endpoint == "token_code" {
								got := call.Params.Get("code_verifier")
								want := ""
								if srec.plain != nil {
									want = srec.plain.Verifier
								}
								if pkce == "none" {
									want = ""
								}
								if got != want {
									vok = false
								}
							}
						}
						obs["verifierOK"] = vok
						conc = append(conc, map[string]interface{}{"callback": kind, "cookie": cookieHdr, "state": state, "code": recs[cIdx].code, "status": r.Status})
					}
					steps = append(steps, obs)
					if obs["diverged"] == true {
						break
					}
				}
				if ghostLost != "" {
					env.emit(vpOut{ID: c.ID, Err: ghostLost})
					continue
				}
				env.emit(vpOut{ID: c.ID, Steps: steps, Conc: conc})
			}
		})
	})
}
