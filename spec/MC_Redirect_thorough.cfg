CONSTANTS
  MaxLen = 5
  RandN = 1
  RandLen = 1
INIT Init
NEXT Next
INVARIANTS C06_NoOpenRedirect EmitCase
CHECK_DEADLOCK FALSE
