//go:build verif

package main

import (
	"fmt"
	mrand "math/rand"
	"sort"
	"strings"
	"testing"
	"time"
)

func (w *vpWorld) slotNames(j *vpJar) []string {
	out := []string{}
	for _, n := range j.names() {
		switch {
		case n == w.name:
			out = append(out, "base")
		case w.isSessionCookieName(n):
			out = append(out, "p"+strings.TrimPrefix(n, w.name+"_"))
		}
	}
	sort.Strings(out)
	return out
}

func init() {
	vpRegister("signout", func(t *testing.T, env *vpEnv) {
		keys, groups := vpGroup(env.cases, func(c *vpCase) string { return string(c.Cfg) })
		vpRunGroups(keys, groups, env.seed, func(rng *mrand.Rand, key string, cs []*vpCase) {
			cm := vpM(cs[0].In, "cfg")
			cfg := &vpCfg{Store: vpS(cm, "store"), Refresh: 3600}
			switch vpS(cm, "domains") {
			case "dotted":
				cfg.CookieDomains = []string{".example.com"}
			case "two":
				cfg.CookieDomains = []string{".example.com", ".app.example.com"}
			case "backend_ok", "backend_fail", "backend_reset":
				// a backend-logout URL is configured: the provider is told about the sign-out (and may answer 500) - the session ends all the same
				cfg.BackendLogout = true
			}
			w, err := vpNewWorld(cfg)
			if err != nil {
				for _, c := range cs {
					env.emit(vpOut{ID: c.ID, Err: "world: " + err.Error()})
				}
				return
			}
			defer w.close()
			if vpS(cm, "domains") == "backend_fail" {
				w.idp.logoutStatus = 500
			}
			if vpS(cm, "domains") == "backend_reset" {
				w.idp.logoutStatus = -1 // the provider's logout endpoint drops the connection
			}
			pad := vpRandPad(1800)
			nextPad := false
			w.idp.mutateClaims = func(kind string, cl map[string]interface{}) {
				if nextPad {
					cl["pad"] = pad
				}
			}
			for _, c := range cs {
				jar := vpNewJar()
				var snaps []*vpJar
				var steps []map[string]interface{}
				var conc []interface{}
				sessKey := ""
				if w.redis != nil {
					w.redis.fault = nil
				}
				for _, st := range c.Steps {
					obs := map[string]interface{}{}
					switch st.A {
					case "login":
						nextPad = vpI(st.Args, "parts") == 2
						before := map[string]bool{}
						if w.mr != nil {
							for _, k := range w.mr.Keys() {
								before[k] = true
							}
						}
						cb, err := w.login(jar, "alice", "")
						if err != nil || w.sessionCookieEffect(cb) != "set" {
							obs["diverged"] = true
							break
						}
						if w.mr != nil {
							for _, k := range w.mr.Keys() {
								if !before[k] && !strings.HasSuffix(k, ".lock") {
									sessKey = k
								}
							}
						}
						r := w.get(jar, "/private")
						obs["served"] = r.UpHits > 0
						obs["cookies"] = w.slotNames(jar)
						snaps = append(snaps, jar.clone())
					case "request":
						r := w.get(jar, "/private")
						obs["served"] = r.UpHits > 0
					case "refresh":
						nextPad = vpI(st.Args, "parts") == 2
						if err := w.ageSession(jar, 2*time.Hour, vpReq{}); err != nil {
							obs["diverged"] = true
							break
						}
						n0 := w.idp.countCalls("token_refresh")
						r := w.get(jar, "/private")
						obs["served"] = r.UpHits > 0
						obs["refreshed"] = w.idp.countCalls("token_refresh") > n0
						obs["cookies"] = w.slotNames(jar)
						snaps = append(snaps, jar.clone())
					case "signout":
						target := w.prefix() + "/sign_out"
						if vpS(st.Args, "rd") == "path" {
							target += "?rd=%2Fbye"
						}
						if stale := vpI(st.Args, "stale"); stale > 0 {
							// the session is older than the refresh period when the sign-out arrives
							nextPad = stale == 2
							if err := w.ageSession(jar, 2*time.Hour, vpReq{}); err != nil {
								obs["diverged"] = true
								break
							}
						}
						if flt := vpS(st.Args, "fault"); flt != "none" && w.redis != nil {
							w.redis.fault = func(c *vpRedisCmd) *vpStoreFault {
								if flt == "outage" || (c.Op == "del" && c.Key == sessKey) {
									return &vpStoreFault{Kind: "err_before"}
								}
								return nil
							}
						}
						// what the browser presents, with the attributes under which each cookie was set
						type held struct{ name, domain, path string }
						var presented []held
						for _, ck := range jar.list() {
							if w.isSessionCookieName(ck.Name) {
								presented = append(presented, held{ck.Name, ck.Domain, ck.Path})
							}
						}
						r := w.do(vpReq{Method: vpS(st.Args, "method"), Target: target, Cookie: jar.header()})
						if w.redis != nil {
							w.redis.fault = nil
						}
						deletedAll, attrsMatch := true, true
						for _, h := range presented {
							found := false
							for _, ck := range r.Cookies {
								if ck.Name == h.name && (ck.MaxAge < 0 || ck.Value == "") {
									found = true
									if ck.Domain != h.domain || ck.Path != h.path {
										attrsMatch = false
									}
								}
							}
							if !found {
								deletedAll = false
							}
						}
						jar.applyAll(r)
						obs["status"] = r.Status
						obs["redirected"] = r.Status >= 300 && r.Status < 400 // the success redirect, whichever 3xx it uses
						obs["sessionCookiesLeft"] = len(w.slotNames(jar))
						obs["deletedAll"] = deletedAll
						obs["deletionAttrsMatch"] = attrsMatch
						obs["keyExists"] = sessKey != "" && w.mr != nil && w.mr.Exists(sessKey)
						// the browser applies the response and simply goes on: is it still signed in?
						after := w.do(vpReq{Target: "/private", Cookie: jar.header()})
						obs["stillSignedIn"] = after.UpHits > 0
						conc = append(conc, map[string]interface{}{"signout": target, "status": r.Status, "location": r.Location, "presented": fmt.Sprint(presented)})
					case "replay":
						auth := 0
						for _, sj := range snaps {
							r := w.do(vpReq{Target: "/private", Cookie: sj.header()})
							if r.UpHits > 0 {
								auth++
							}
						}
						obs["authenticated"] = auth
						obs["replayed"] = len(snaps)
					}
					steps = append(steps, obs)
					if obs["diverged"] == true {
						break
					}
				}
				env.emit(vpOut{ID: c.ID, Steps: steps, Conc: conc})
			}
		})
	})
}
