CONSTANTS
  MaxOps = 4
  MaxParts = 4
  Stores = {"cookie", "redis"}
  NameLens = {13, 100, 250, 254, 255, 256}
  StaleCleanup = TRUE
INIT Init
NEXT Next
INVARIANTS TypeOK C10_RoundTrip EmitCase
CHECK_DEADLOCK FALSE
