--------------------------- MODULE Trace_Redirect ---------------------------
(* Judge for C06: redirect targets the real endpoints put on the wire (Location    *)
(* after http.Redirect's path cleaning and escaping), tokenised back, are resolved  *)
(* with the same browser model and must be safe for the whitelist in force.         *)
EXTENDS Redirect, Integers
Emitted == ndJsonDeserialize("trace.ndjson")
VARIABLES i, last
Init2 == i = 1 /\ last = [s |-> <<>>, wl |-> "none", eid |-> 0] /\ c = [s |-> <<>>, wl |-> "none"]
Next2 == i <= Len(Emitted) /\ last' = Emitted[i] /\ i' = i + 1 /\ UNCHANGED c
Spec2 == Init2 /\ [][Next2]_<<i, last, c>>
Mon_EmittedSafe == last.s = <<>> \/ Safe(BrowserResolve(last.s), last.wl)
TraceAccepted == TLCGet("stats").diameter - 1 = Len(Emitted)
=============================================================================
