CONSTANTS
  Versions <- TheVersions
  Reloaders = {1}
  Validators = {1, 2, 3}
  InPlace = FALSE
  Leftover = FALSE
INIT Init
NEXT Next
INVARIANTS NoTornRead Monotone KeepOld
CHECK_DEADLOCK FALSE
