//go:build verif

package main

import (
	mrand "math/rand"
	"testing"
	"time"
)

// idpfaults: C14 - every provider call of the login / bearer / refresh flows answered by a failure or a malformed response
func init() {
	vpRegister("idpfaults", func(t *testing.T, env *vpEnv) {
		env.parallel(16, func(_ int, rng *mrand.Rand, c *vpCase) {
			flow, call, kind := vpS(c.In, "flow"), vpS(c.In, "call"), vpS(c.In, "kind")
			cfg := &vpCfg{Store: "redis", Refresh: 3600, Bearer: true, PKCE: "S256", Legacy: map[string]bool{"passAccessToken": true}}
			if kind == "azp_number" || kind == "azp_list_numbers" {
				cfg.AudienceClaims = []string{"azp", "aud"}
			}
			w, err := vpNewWorld(cfg)
			if err != nil {
				env.emit(vpOut{ID: c.ID, Err: "world: " + err.Error()})
				return
			}
			defer w.close()
			idp := w.idp
			switch kind {
			case "500", "400", "reset", "stall", "empty", "truncated", "nojson", "huge", "noidtoken", "noaccesstoken", "noexpires", "expires_zero", "expires_null",
				"expires_string", "norefresh", "refresh_null", "notokentype", "noidtoken_noexpires", "idtoken_null_noexpires", "idtoken_null", "idtoken_number",
				"idtoken_empty", "access_null", "access_number", "idtoken_garbage", "aud_number", "aud_object", "azp_number", "azp_list_numbers", "groups_object",
				"email_number", "exp_string", "ev_string", "sub_number":
			default:
				// a kind the driver cannot inject must never pass as "held"
				env.emit(vpOut{ID: c.ID, Err: "unknown response kind " + kind})
				return
			}
			arm := func() {
				idp.mu.Lock()
				defer idp.mu.Unlock()
				switch kind {
				case "500", "400", "reset", "stall", "empty", "truncated", "nojson", "huge":
					idp.faults[call] = &vpFault{Kind: kind}
				case "noidtoken", "noaccesstoken", "noexpires", "expires_zero", "expires_null", "expires_string", "norefresh", "refresh_null", "notokentype",
					"noidtoken_noexpires", "idtoken_null_noexpires", "idtoken_null", "idtoken_number", "idtoken_empty", "access_null", "access_number":
					idp.faults[map[string]string{"token_code": "code", "token_refresh": "refresh"}[call]+"_body"] = &vpFault{Kind: kind}
				case "idtoken_garbage":
					idp.garbageIDToken = true
				default:
					idp.mutateClaims = func(k string, cl map[string]interface{}) {
						switch kind {
						case "aud_number":
							cl["aud"] = 42
						case "aud_object":
							cl["aud"] = map[string]interface{}{"x": 1}
						case "azp_number":
							cl["azp"] = 42
						case "azp_list_numbers":
							cl["azp"] = []interface{}{1, 2}
						case "groups_object":
							cl["groups"] = map[string]interface{}{"admin": true}
						case "email_number":
							cl["email"] = 12345
						case "exp_string":
							cl["exp"] = "tomorrow"
						case "ev_string":
							cl["email_verified"] = "yes"
						case "sub_number":
							cl["sub"] = 777
						}
					}
				}
			}
			disarm := func() {
				idp.mu.Lock()
				idp.faults = map[string]*vpFault{}
				idp.mutateClaims = nil
				idp.garbageIDToken = false
				idp.mu.Unlock()
			}
			obs := map[string]interface{}{"created": false, "extended": false}
			jar := vpNewJar()
			switch flow {
			case "login":
				// the token lacks the e-mail claim: the profile endpoint is consulted during the callback
				if call == "userinfo" {
					lacks := vpS(c.In, "lacks")
					idp.mu.Lock()
					idp.mutateClaims = func(k string, cl map[string]interface{}) { delete(cl, lacks) }
					idp.mu.Unlock()
				}
				s := w.startLogin(jar, "")
				code, state, err := idp.authorize(s.Location, "alice")
				if err != nil {
					env.emit(vpOut{ID: c.ID, Err: "authorize: " + err.Error()})
					return
				}
				if call == "userinfo" {
					idp.mu.Lock()
					idp.faults[call] = &vpFault{Kind: kind}
					idp.mu.Unlock()
				} else {
					arm()
				}
				r := w.callbackRaw(jar.header(), code, state)
				jar.applyAll(r)
				obs["created"] = w.sessionCookieEffect(r) == "set"
				obs["status"], obs["panic"] = r.Status, r.Panic != ""
				if obs["created"] == true {
					again := w.get(jar, "/private")
					obs["servedWithIt"] = again.UpHits > 0
				}
			case "bearer":
				arm()
				tok := idp.mintIDToken("alice", nil, "")
				r := w.do(vpReq{Target: "/private", Header: [][2]string{{"Authorization", "Bearer " + tok}}})
				obs["created"] = r.UpHits > 0
				obs["status"], obs["panic"] = r.Status, r.Panic != ""
			case "validate":
				// the session comes from this proxy; it is presented to a second proxy with the same secret and provider that has
				// never verified a token (a restart): the provider refuses the refresh, so the session must be re-validated, which
				// needs the signing keys - and that call fails
				if _, err := w.login(jar, "alice", ""); err != nil {
					env.emit(vpOut{ID: c.ID, Err: "login: " + err.Error()})
					return
				}
				if err := w.ageSession(jar, 2*time.Hour, vpReq{}); err != nil {
					env.emit(vpOut{ID: c.ID, Err: "age: " + err.Error()})
					return
				}
				// (a second session of the same kind for the control below: the faulty run is expected to end the first one)
				jarC := vpNewJar()
				if _, err := w.login(jarC, "alice", ""); err != nil || w.ageSession(jarC, 2*time.Hour, vpReq{}) != nil {
					env.emit(vpOut{ID: c.ID, Err: "control session"})
					return
				}
				cfg2 := *cfg
				cfg2.shareIdP, cfg2.shareRedis = w.idp, w.mr
				w2, err := vpNewWorld(&cfg2)
				if err != nil {
					env.emit(vpOut{ID: c.ID, Err: "second proxy: " + err.Error()})
					return
				}
				idp.mu.Lock()
				idp.refreshMode = "fail"
				idp.mu.Unlock()
				arm()
				r := w2.get(jar, "/private")
				obs["created"] = r.UpHits > 0
				obs["status"], obs["panic"] = r.Status, r.Panic != ""
				w2.close()
				// control (non-vacuity): with the keys available a third, equally fresh proxy re-validates and serves the same session
				disarm()
				cfg3 := *cfg
				cfg3.shareIdP, cfg3.shareRedis = w.idp, w.mr
				if obs["created"] == false {
					if w3, err := vpNewWorld(&cfg3); err == nil {
						obs["controlServed"] = w3.get(jarC, "/private").UpHits > 0
						w3.close()
					}
				}
				idp.mu.Lock()
				idp.refreshMode = "ok"
				idp.mu.Unlock()
			case "refresh":
				if _, err := w.login(jar, "alice", ""); err != nil {
					env.emit(vpOut{ID: c.ID, Err: "login: " + err.Error()})
					return
				}
				if err := w.ageSession(jar, 2*time.Hour, vpReq{}); err != nil {
					env.emit(vpOut{ID: c.ID, Err: "age: " + err.Error()})
					return
				}
				if call == "userinfo" {
					lacks := vpS(c.In, "lacks")
					idp.mu.Lock()
					idp.mutateClaims = func(k string, cl map[string]interface{}) {
						if k == "refresh" {
							delete(cl, lacks)
						}
					}
					idp.faults[call] = &vpFault{Kind: kind}
					idp.mu.Unlock()
				} else {
					arm()
				}
				r := w.get(jar, "/private")
				gen := -1
				if r.UpLast != nil {
					gen = vpGenOfToken(r.UpLast.Header.Get("X-Forwarded-Access-Token"))
				}
				obs["extended"] = gen >= 1
				obs["status"], obs["panic"] = r.Status, r.Panic != ""
				obs["servedWithOld"] = r.UpHits > 0 && gen == 0
				if _, ask := c.Req["expiredReplayServed"]; ask {
					// a session that is due for a refresh AND whose own tokens have expired, with a self-contained (cookie store) credential:
					// the refresh fails, re-validation fails - it is not honoured, neither at the first presentation of the cookie nor at a
					// second one (another tab, a retry) while the provider is still failing
					cfgC := *cfg
					cfgC.Store, cfgC.shareIdP = "cookie", w.idp
					if wc, err := vpNewWorld(&cfgC); err == nil {
						jarX := vpNewJar()
						if _, err := wc.login(jarX, "alice", ""); err == nil && wc.ageSessionOpt(jarX, 2*time.Hour, true) == nil {
							cookieX := jarX.header()
							// (every request is given eight seconds: one that is never answered is an observation, not a dead driver)
							timed := func(req vpReq) *vpResp {
								ch := make(chan *vpResp, 1)
								go func() { ch <- wc.do(req) }()
								select {
								case r := <-ch:
									return r
								case <-time.After(8 * time.Second):
									return nil
								}
							}
							r1 := timed(vpReq{Target: "/private", Cookie: cookieX})
							var r2 *vpResp
							if r1 != nil {
								r2 = timed(vpReq{Target: "/private", Cookie: cookieX})
							}
							if r1 == nil || r2 == nil {
								obs["answeredAgain"] = false // a presentation of the cookie that is never answered
							} else {
								obs["expiredServed"], obs["expiredReplayServed"] = r1.UpHits > 0, r2.UpHits > 0
								if r1.Panic != "" || r2.Panic != "" {
									obs["panic"] = true
								}
							}
						}
						wc.close()
					}
				}
			}
			disarm()
			// the proxy keeps handling other requests - also the next one of the SAME browser, with whatever session it still holds: it is
			// answered (with anything) and does not wait for ever on something the failed exchange left behind
			ans := make(chan bool, 1)
			go func() { w.get(jar, "/private"); ans <- true }()
			select {
			case <-ans:
				if _, already := obs["answeredAgain"]; !already {
					obs["answeredAgain"] = true
				}
			case <-time.After(8 * time.Second):
				obs["answeredAgain"] = false
			}
			// ... and a following well-formed login works
			j2 := vpNewJar()
			cb, err := w.login(j2, "bob", "")
			idp.mu.Lock()
			obs["pkceOK"] = idp.pkceMisses == 0
			idp.mu.Unlock()
			obs["nextOK"] = err == nil && w.sessionCookieEffect(cb) == "set" && w.get(j2, "/private").UpHits > 0
			env.emit(vpOut{ID: c.ID, Obs: obs})
		})
	})
}
