-------------------------------- MODULE Login --------------------------------
(* C03 and C05: the login flow as a state machine over symbolic logins.          *)
(*                                                                                *)
(* A login l is started in a browser (Start): the proxy sets a CSRF cookie that    *)
(* holds l's state nonce, OIDC nonce and PKCE verifier and redirects to the IdP    *)
(* with state(l), the hashed nonce and the challenge.  The user authorises at the  *)
(* IdP, which hands out a code bound to that authorization request.  Callback      *)
(* presents a state, a code and a list of cookies under the CSRF cookie name the   *)
(* proxy derives from the presented state.                                         *)
(*                                                                                *)
(* Honest callbacks present what the browser's jar holds; at most one adversarial  *)
(* callback (crafted cookies / state / code) happens per behaviour, at any point.  *)
(* Every maximal behaviour is replayed against the real proxy and fake IdP.        *)
EXTENDS Naturals, Sequences, FiniteSets, TLC, Json, CSV, Str

CONSTANTS MaxStartsB1, MaxStartsB2, MaxSteps,
          OptionSets      \* set of [perReq, encodeState, pkce, skipNonce, idpNonce]

Vocab == [ atoms |-> [ none |-> "" ] ]
Browsers == {"b1", "b2"}

VARIABLES logins,   \* sequence of [b] : login l = index, started in browser b
          jar,      \* [Browsers -> SUBSET Nat] CSRF cookies held (by login id)
          used,     \* set of logins whose authorization code has been consumed at the IdP
          sess,     \* set of logins that ended in a session
          adv,      \* TRUE once the adversarial callback has happened
          opt, hist
vars == <<logins, jar, used, sess, adv, opt, hist>>

Owner(l) == logins[l].b
StartsIn(b) == Cardinality({l \in 1..Len(logins) : logins[l].b = b})

\* ---- cookies as presented --------------------------------------------------------------------
\* a presented cookie: the value issued for login val, possibly mutated, sent under the name derived from the presented state
Ck(v, m) == [val |-> v, mut |-> m]
\* the proxy can decode a presented cookie iff it is unmodified and was signed under the name it is presented under
NameMatches(v, s) == IF opt.perReq THEN v = s ELSE TRUE       \* fixed name: every CSRF cookie carries the same name
\* (the per-request name is derived from the first characters of the state nonce: tampering there ("head") means nothing is
\*  found; tampering further on ("tail"), or any tampering with the fixed name, still finds the cookie)
Decodes(k, s, sm) == k.mut = "none" /\ NameMatches(k.val, s) /\ (opt.perReq => sm # "head")

\* ---- what the identity provider does at redemption ---------------------------------------------
\* redemption of code c with the verifier taken from cookie k: the code must be unused and, with PKCE, the verifier must be c's
Redeems(c, k) == c \notin used /\ (opt.pkce = "none" \/ k.val = c)
\* the ID token's nonce claim binds it to login c's authorization request; the proxy compares with cookie k's nonce
NonceOK(c, k) == opt.skipNonce \/ (opt.idpNonce = "echo" /\ k.val = c)

\* ---- requirement -------------------------------------------------------------------------------
\* C03: a session only if the presented state matches an unmodified CSRF cookie of that same login, presented with it
Req_C03_OnlyIf(s, cks, session) == session => \E i \in 1..Len(cks) : cks[i].mut = "none" /\ cks[i].val = s
\* C05: ... and only if the token's nonce is this login's (unless nonce checking is disabled)
Req_C05_OnlyIf(c, s, session)   == session => (opt.skipNonce \/ (opt.idpNonce = "echo" /\ c = s))

\* implementation (oauthproxy.go OAuthCallback): the first decodable cookie under the derived name is used
FirstDecodable(cks, s, sm) == LET I == {i \in 1..Len(cks) : Decodes(cks[i], s, sm)} IN
                          IF I = {} THEN 0 ELSE CHOOSE i \in I : \A j \in I : i <= j
Impl_Session(s, cks, c, sm) ==
    LET i == FirstDecodable(cks, s, sm) IN
    /\ sm = "none" /\ i # 0
    /\ Redeems(c, cks[i])
    /\ cks[i].val = s                      \* CheckOAuthState
    /\ NonceOK(c, cks[i])
\* side effects of the implementation: the code is consumed once redemption is attempted with a decodable cookie;
\* the used cookie is cleared in the response once redemption and enrichment succeeded
Impl_Consumes(s, cks, c, sm) == LET i == FirstDecodable(cks, s, sm) IN i # 0 /\ c \notin used /\ (opt.pkce = "none" \/ cks[i].val = c)
Impl_ClearsCookie(s, cks, c, sm) == Impl_Consumes(s, cks, c, sm)

\* the observation the harness must make: "set" / "refused"; ambiguous pairings (two cookies under one name, the
\* foreign one first) are only held to the safety direction
Expect(s, cks, c, sm, strict) ==
    IF Impl_Session(s, cks, c, sm) THEN (IF strict THEN "set" ELSE "any")
    ELSE "refused"

\* ---- actions -----------------------------------------------------------------------------------
Init == /\ logins = <<>> /\ jar = [b \in Browsers |-> {}] /\ used = {} /\ sess = {} /\ adv = FALSE /\ hist = <<>>
        /\ opt \in OptionSets

Start(b) ==
    /\ Len(hist) < MaxSteps
    /\ StartsIn(b) < (IF b = "b1" THEN MaxStartsB1 ELSE MaxStartsB2)
    /\ logins' = Append(logins, [b |-> b])
    /\ jar' = [jar EXCEPT ![b] = IF opt.perReq THEN @ \cup {Len(logins) + 1} ELSE {Len(logins) + 1}]
    /\ hist' = Append(hist, [a |-> "start", args |-> [b |-> b, l |-> Len(logins) + 1],
                             req |-> [redirectsToIdP |-> TRUE, csrfCookieSet |-> TRUE,
                                      challenge |-> opt.pkce, verifier |-> IF opt.pkce = "none" THEN "none" ELSE "ok",
                                      nonceSent |-> ~opt.skipNonce, leak |-> FALSE]])
    /\ UNCHANGED <<used, sess, adv, opt>>

\* what browser b's jar sends under the name derived from state s
Held(b, s) == IF opt.perReq THEN (IF s \in jar[b] THEN <<Ck(s, "none")>> ELSE <<>>)
              ELSE (IF jar[b] = {} THEN <<>> ELSE <<Ck(CHOOSE v \in jar[b] : TRUE, "none")>>)

Others == IF opt.perReq THEN 0 ELSE [any |-> TRUE]
Record(kind, b, s, cks, c, stateMut, strict) ==
    LET e == Expect(s, cks, c, stateMut, strict)
    IN [a |-> "callback",
        \* codeFresh and cookies are the model's view of the environment (IdP, browser jar) before the step: the harness
        \* compares them with the real environment and cuts the behaviour (diverged) when they differ
        args |-> [kind |-> kind, b |-> b, state |-> s, stateMut |-> stateMut, cookies |-> cks, code |-> c, codeFresh |-> c \notin used],
        \* clearedOthers: CSRF cookies of OTHER logins that the response deletes from the browser; with per-request cookies
        \* every outstanding login must stay completable whatever happens to this one, so that number must be 0
        req |-> IF e = "set" THEN [session |-> "set", leak |-> FALSE, verifierOK |-> TRUE, clearedOthers |-> Others]
                \* a refused callback "yields an error page": an error status, not a redirect onwards - also when the browser is
                \* already signed in from an earlier login and sends that session cookie along
                ELSE IF e = "refused" THEN [session |-> [not |-> "set"], errorPage |-> TRUE, leak |-> FALSE, clearedOthers |-> Others]
                ELSE [leak |-> FALSE],
        impl |-> [session |-> IF Impl_Session(s, cks, c, stateMut) THEN "set" ELSE "none"]]

\* honest completion of login l by its own browser
Honest(l) ==
    /\ Len(hist) < MaxSteps
    /\ l \in 1..Len(logins) /\ l \notin used /\ l \notin sess
    /\ LET b == Owner(l)  cks == Held(b, l) IN
       /\ hist' = Append(hist, Record("honest", b, l, cks, l, "none", TRUE))
       /\ used' = IF Impl_Consumes(l, cks, l, "none") THEN used \cup {l} ELSE used
       /\ sess' = IF Impl_Session(l, cks, l, "none") THEN sess \cup {l} ELSE sess
       /\ jar' = IF Impl_ClearsCookie(l, cks, l, "none")
                 THEN [jar EXCEPT ![b] = @ \ {cks[FirstDecodable(cks, l, "none")].val}] ELSE jar
    /\ UNCHANGED <<logins, adv, opt>>

\* adversarial pairings for the state of login s; other = another login (same or other browser)
AdvKinds == {"absent", "other_value", "tampered_value", "tampered_sig", "resigned", "expired_ts", "both_own_first", "both_other_first",
             "state_head", "state_tail", "code_of_other", "victim_browser"}
AdvCookies(kind, s, o) ==
    CASE kind = "absent"           -> <<>>
      [] kind = "other_value"      -> <<Ck(o, "none")>>
      [] kind = "tampered_value"   -> <<Ck(s, "tampered_value")>>
      [] kind = "tampered_sig"     -> <<Ck(s, "tampered_sig")>>
      [] kind = "resigned"         -> <<Ck(s, "resigned")>>
      [] kind = "expired_ts"       -> <<Ck(s, "expired_ts")>>
      [] kind = "both_own_first"   -> <<Ck(s, "none"), Ck(o, "none")>>
      [] kind = "both_other_first" -> <<Ck(o, "none"), Ck(s, "none")>>
      [] kind = "victim_browser"   -> Held(Owner(o), s)           \* the cookies another browser would send for this state
      [] OTHER                     -> <<Ck(s, "none")>>           \* state_head, state_tail, code_of_other: own cookie
Adversarial(kind, s, o) ==
    /\ Len(hist) < MaxSteps /\ ~adv
    /\ s \in 1..Len(logins) /\ o \in 1..Len(logins) /\ s # o
    /\ s \notin used /\ s \notin sess
    /\ (kind = "victim_browser" => Owner(o) # Owner(s))
    /\ (kind = "code_of_other" => o \notin used)
    /\ LET cks == AdvCookies(kind, s, o)
           c == IF kind = "code_of_other" THEN o ELSE s
           sm == IF kind = "state_head" THEN "head" ELSE IF kind = "state_tail" THEN "tail" ELSE "none"
           strict == kind \notin {"both_other_first", "both_own_first"}
       IN /\ hist' = Append(hist, Record(kind, Owner(s), s, cks, c, sm, strict))
          /\ used' = IF Impl_Consumes(s, cks, c, sm) THEN used \cup {c} ELSE used
          /\ sess' = IF Impl_Session(s, cks, c, sm) THEN sess \cup {s} ELSE sess
    /\ adv' = TRUE
    /\ UNCHANGED <<logins, jar, opt>>       \* the crafted request does not come from a browser jar

Next == \/ \E b \in Browsers : Start(b)
        \/ \E l \in 1..Len(logins) : Honest(l)
        \/ \E k \in AdvKinds, s \in 1..Len(logins), o \in 1..Len(logins) : Adversarial(k, s, o)

\* ---- invariants: the transcribed implementation satisfies the requirement ---------------------
LastCb == hist[Len(hist)]
C03_Binding == (Len(hist) > 0 /\ LastCb.a = "callback")
                 => Req_C03_OnlyIf(LastCb.args.state, LastCb.args.cookies, LastCb.impl.session = "set" /\ LastCb.args.stateMut = "none")
C05_Nonce   == (Len(hist) > 0 /\ LastCb.a = "callback")
                 => Req_C05_OnlyIf(LastCb.args.code, LastCb.args.state, LastCb.impl.session = "set")
\* converse (per-request cookies): every outstanding login whose cookie the browser still holds can be completed
C03_Converse == opt.perReq /\ opt.idpNonce = "echo" =>
                  \A l \in 1..Len(logins) : (l \notin used /\ l \in jar[Owner(l)]) => Impl_Session(l, Held(Owner(l), l), l, "none")
\* without per-request cookies the last login started in a browser can be completed
C03_ConverseFixed == ~opt.perReq /\ opt.idpNonce = "echo" =>
                  \A l \in 1..Len(logins) : (l \notin used /\ jar[Owner(l)] = {l}) => Impl_Session(l, Held(Owner(l), l), l, "none")

CaseRec == [fam |-> "login", cfg |-> opt, in |-> [opt |-> opt, steps |-> Len(hist)], steps |-> hist]
EmitVocab == JsonSerialize("vocab.json", Vocab)
EmitCase  == (Len(hist) > 0 /\ ~ENABLED Next) => CSVWrite("%1$s", <<ToJson(CaseRec)>>, "cases.ndjson")
=============================================================================
