//go:build verif

package main

import (
	"fmt"
	mrand "math/rand"
	"strings"
	"testing"
	"time"
)

// tokens: C04 - token attribute product on the three entry paths
func init() {
	vpRegister("tokens", func(t *testing.T, env *vpEnv) {
		keys, groups := vpGroup(env.cases, func(c *vpCase) string { return vpJSON(c.In["cfg"]) })
		vpRunGroups(keys, groups, env.seed, func(rng *mrand.Rand, key string, cs []*vpCase) {
			cm := vpM(cs[0].In, "cfg")
			cfg := &vpCfg{Store: "cookie", Refresh: 3600, Bearer: true, AllowUnverifiedEmail: vpB(cm, "allowUnverified"),
				StaticKeys: vpS(cm, "keys") == "static", JWKSURLOnly: vpS(cm, "keys") == "jwks", Legacy: map[string]bool{"passAccessToken": true},
				ExtraIssuer: true, ExtraIssuer2: true}
			custom := vpS(cm, "claimMap") == "custom"
			if custom {
				cfg.EmailClaim, cfg.GroupsClaim = "mail", "roles"
			}
			cfg.UnsetClaimNames = vpS(cm, "claimMap") == "unset"
			audClaim := vpS(cm, "audClaim")
			if audClaim == "azp" {
				cfg.AudienceClaims = []string{"azp"}
			}
			if vpB(cm, "extraAud") {
				cfg.ExtraAudiences = []string{vpExtraAudience}
			}
			w, err := vpNewWorld(cfg)
			if err != nil {
				for _, c := range cs {
					env.emit(vpOut{ID: c.ID, Err: "world: " + err.Error()})
				}
				return
			}
			defer w.close()
			for _, c := range cs {
				tok := vpM(c.In, "tok")
				path := vpS(c.In, "path")
				claimsVar := vpS(tok, "claims")
				mut := func(cl map[string]interface{}) {
					// every token carries custom claims next to the standard ones (used only when the operator configured them)
					cl["mail"] = "custom-alice@example.com"
					cl["roles"] = []string{"r1", "r2"}
					if vpS(tok, "iss") == "other" {
						cl["iss"] = "https://evil.example"
					}
					var av interface{}
					switch vpS(tok, "aud") {
					case "client":
						av = vpClientID
					case "other":
						av = "someone-else"
					case "list_with":
						av = []string{"x-other", vpClientID}
					case "list_without":
						av = []string{"x-other", "y-other"}
					case "extra":
						av = vpExtraAudience
					case "number":
						av = 42
					case "object":
						av = map[string]interface{}{"a": 1}
					case "absent":
						av = nil
					}
					if av == nil {
						delete(cl, audClaim)
					} else {
						cl[audClaim] = av
					}
					switch vpS(tok, "exp") {
					case "past":
						cl["exp"] = time.Now().Add(-time.Hour).Unix()
					case "expiring":
						cl["exp"] = time.Now().Add(4 * time.Second).Unix()
					}
					switch vpS(tok, "ev") {
					case "false":
						cl["email_verified"] = false
					case "absent":
						delete(cl, "email_verified")
					}
					switch claimsVar {
					case "email_prof":
						delete(cl, "email")
					case "groups_prof":
						delete(cl, "groups")
						delete(cl, "preferred_username")
					case "no_groups":
						delete(cl, "groups")
					case "ev_split":
						cl["email_verified"] = false
						delete(cl, "groups")
					case "email_prof_unv":
						delete(cl, "email")
						delete(cl, "email_verified")
					}
				}
				w.idp.mu.Lock()
				w.idp.userinfoClaims = map[string]interface{}{"email": "profile-alice@example.com", "groups": []string{"pg1"}, "preferred_username": "prof-alice", "email_verified": true}
				if claimsVar == "no_groups" {
					w.idp.userinfoClaims["groups"] = nil
				}
				if claimsVar == "email_prof_unv" {
					w.idp.userinfoClaims["email_verified"] = false // the profile itself marks the address it supplies as unverified
				}
				w.idp.signAlg = "RS256"
				baseMut := func(k string, cl map[string]interface{}) {
					cl["mail"] = "custom-alice@example.com"
					cl["roles"] = []string{"r1", "r2"}
				}
				w.idp.mutateClaims = baseMut
				w.idp.mu.Unlock()
				alg := map[string]string{"right": "RS256", "otherkey": "otherkey", "algnone": "none", "hs256pub": "HS256pub"}[vpS(tok, "sig")]
				jar := vpNewJar()
				obs := map[string]interface{}{"panic": false}
				var r *vpResp
				setBad := func(kind string) {
					w.idp.mu.Lock()
					w.idp.signAlg = alg
					w.idp.mutateClaims = func(k string, cl map[string]interface{}) {
						baseMut(k, cl)
						if k == kind {
							mut(cl)
						}
					}
					w.idp.mu.Unlock()
				}
				switch path {
				case "callback":
					setBad("code")
					cb, err := w.login(jar, "alice", "")
					if err != nil {
						env.emit(vpOut{ID: c.ID, Err: "login: " + err.Error()})
						continue
					}
					obs["accepted"] = w.sessionCookieEffect(cb) == "set"
					obs["panic"] = cb.Panic != ""
					r = w.get(jar, "/private")
				case "refresh":
					if _, err := w.login(jar, "alice", ""); err != nil {
						env.emit(vpOut{ID: c.ID, Err: "login: " + err.Error()})
						continue
					}
					if err := w.ageSession(jar, 2*time.Hour, vpReq{}); err != nil {
						env.emit(vpOut{ID: c.ID, Err: "age: " + err.Error()})
						continue
					}
					setBad("refresh")
					if _, ask := c.Req["foreignIdentity"]; ask {
						// a refreshed token the proxy must reject also names ANOTHER identity: whatever the request is then served with
						// (the old, re-validated session at most), it is not the identity of a token that was not accepted
						w.idp.mu.Lock()
						prev := w.idp.mutateClaims
						w.idp.mutateClaims = func(k string, cl map[string]interface{}) {
							prev(k, cl)
							if k == "refresh" {
								cl["email"] = "intruder@example.com"
								cl["groups"] = []string{"admins"}
								cl["preferred_username"] = "intruder"
							}
						}
						w.idp.mu.Unlock()
					}
					r = w.get(jar, "/private")
					if _, ask := c.Req["foreignIdentity"]; ask {
						foreign := false
						if r.UpLast != nil {
							h := r.UpLast.Header
							foreign = strings.Contains(h.Get("X-Forwarded-Email"), "intruder") || strings.Contains(h.Get("X-Forwarded-Groups"), "admins") ||
								strings.Contains(h.Get("X-Forwarded-Preferred-Username"), "intruder")
						}
						obs["foreignIdentity"] = foreign
					}
					gen := -1
					if r.UpLast != nil {
						gen = vpGenOfToken(r.UpLast.Header.Get("X-Forwarded-Access-Token"))
					}
					obs["accepted"] = gen >= 1
					obs["panic"] = r.Panic != ""
				case "bearer_twice":
					t0 := time.Now()
					w.idp.mu.Lock()
					token := w.idp.mintIDToken("alice", mut, alg)
					w.idp.mu.Unlock()
					r = w.do(vpReq{Target: "/private", Header: [][2]string{{"Authorization", "Bearer " + token}}})
					if time.Since(t0) > 2500*time.Millisecond {
						// (machine too busy: the first presentation may already have been past the expiry - no verdict for this case)
						env.emit(vpOut{ID: c.ID, Err: "first presentation took too long for the 4 s token"})
						continue
					}
					obs["accepted"] = r.UpHits > 0
					time.Sleep(time.Until(t0.Add(6 * time.Second)))
					r2 := w.do(vpReq{Target: "/private", Header: [][2]string{{"Authorization", "Bearer " + token}}})
					obs["acceptedAfterExpiry"] = r2.UpHits > 0
					obs["panic"] = r.Panic != "" || r2.Panic != ""
					r = nil
				case "validate_twice":
					// the session's ID token expires in a few seconds; the provider refuses refreshes, so a stale session is re-validated
					t0 := time.Now()
					setBad("code")
					if _, err := w.login(jar, "alice", ""); err != nil {
						env.emit(vpOut{ID: c.ID, Err: "login: " + err.Error()})
						continue
					}
					w.idp.mu.Lock()
					w.idp.mutateClaims = baseMut
					saveMode := w.idp.refreshMode
					w.idp.refreshMode = "fail"
					w.idp.mu.Unlock()
					if err := w.ageSession(jar, 2*time.Hour, vpReq{}); err != nil {
						env.emit(vpOut{ID: c.ID, Err: "age: " + err.Error()})
						continue
					}
					r = w.get(jar, "/private")
					if time.Since(t0) > 2500*time.Millisecond {
						w.idp.mu.Lock()
						w.idp.refreshMode = saveMode
						w.idp.mu.Unlock()
						env.emit(vpOut{ID: c.ID, Err: "first presentation took too long for the 4 s token"})
						continue
					}
					obs["accepted"] = r.UpHits > 0
					time.Sleep(time.Until(t0.Add(6 * time.Second)))
					r2 := w.get(jar, "/private")
					obs["acceptedAfterExpiry"] = r2.UpHits > 0
					obs["panic"] = r.Panic != "" || r2.Panic != ""
					w.idp.mu.Lock()
					w.idp.refreshMode = saveMode
					w.idp.mu.Unlock()
					r = nil
				case "xbearer", "xbearer0":
					// the token comes from one of the two extra issuers; "client" audience = the audience configured for them,
					// "otherkey" = the other extra issuer's key under that issuer's key id
					iss, other := w.xidp, w.xidp0
					if path == "xbearer0" {
						iss, other = w.xidp0, w.xidp
					}
					xmut := func(cl map[string]interface{}) {
						mut(cl)
						switch vpS(tok, "aud") {
						case "client":
							cl["aud"] = vpExtraAudience
						}
						if vpS(tok, "iss") != "other" {
							cl["iss"] = iss.issuer()
						}
					}
					var token string
					if alg == "otherkey" {
						token = other.mintIDToken("alice", xmut, "")
					} else {
						token = iss.mintIDToken("alice", xmut, alg)
					}
					if alg == "none" {
						token += "x"
					}
					r = w.do(vpReq{Target: "/private", Header: [][2]string{{"Authorization", "Bearer " + token}}})
					obs["accepted"] = r.UpHits > 0
					obs["panic"] = r.Panic != ""
				case "bearer":
					w.idp.mu.Lock()
					token := w.idp.mintIDToken("alice", mut, alg)
					w.idp.mu.Unlock()
					if alg == "none" {
						token += "x"
					}
					r = w.do(vpReq{Target: "/private", Header: [][2]string{{"Authorization", "Bearer " + token}}})
					obs["accepted"] = r.UpHits > 0
					obs["panic"] = r.Panic != ""
				}
				if obs["accepted"] == true && r != nil && r.UpLast != nil {
					h := r.UpLast.Header
					tag := func(v string, tokv, profv string) string {
						switch v {
						case "":
							return "none"
						case tokv:
							return "tok"
						case profv:
							return "prof"
						case "custom-alice@example.com", "r1,r2":
							return "custom"
						}
						return "other:" + v
					}
					obs["identity"] = map[string]interface{}{
						"user":   tag(h.Get("X-Forwarded-User"), "sub-alice", "?"),
						"email":  tag(h.Get("X-Forwarded-Email"), "alice@example.com", "profile-alice@example.com"),
						"groups": tag(h.Get("X-Forwarded-Groups"), "g1,g2", "pg1"),
						"pu":     tag(h.Get("X-Forwarded-Preferred-Username"), "alice", "prof-alice"),
					}
				}
				obs["unverifiedEmailUsed"] = false
				if id, ok := obs["identity"].(map[string]interface{}); ok && obs["accepted"] == true && vpS(tok, "ev") == "false" {
					obs["unverifiedEmailUsed"] = id["email"] == "tok"
				}
				status := 0
				if r != nil {
					status = r.Status
				}
				env.emit(vpOut{ID: c.ID, Obs: obs, Conc: map[string]interface{}{"status": status, "alg": alg, "claims": fmt.Sprint(strings.ToLower(claimsVar))}})
			}
		})
	})
}
