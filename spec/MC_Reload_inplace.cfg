CONSTANTS
  Versions <- TheVersions
  Reloaders = {1}
  Validators = {1}
  InPlace = TRUE
INIT Init
NEXT Next
INVARIANTS NoTornRead Monotone KeepOld
CHECK_DEADLOCK FALSE
