//go:build verif

package main

import (
	"fmt"
	mrand "math/rand"
	"net/url"
	"strings"
	"testing"

	"github.com/oauth2-proxy/oauth2-proxy/v7/pkg/app/redirect"
)

var vpWhitelists = map[string][]string{"none": nil, "exact": {"good.example.com"}, "dotted": {".example.com"}, "wild": {"*.example.com"},
	"exact_port": {"good.example.com:8443"}, "exact_anyport": {"good.example.com:*"}}

func vpRedirectText(voc *vpVocab, seq []string) string {
	t := voc.text(seq)
	t = strings.ReplaceAll(t, "{CTL}", "\x01")
	return strings.ReplaceAll(t, "{NBSP}", " ")
}

func vpRedirectTokens(voc *vpVocab, s string) []string {
	s = strings.ReplaceAll(s, "\x01", "{CTL}")
	s = strings.ReplaceAll(s, " ", "{NBSP}")
	s = strings.ReplaceAll(s, "%C2%A0", "{NBSP}")
	s = strings.ReplaceAll(s, "%20", " ")
	return voc.tokens(s)
}

func init() {
	vpRegister("redirect", func(t *testing.T, env *vpEnv) {
		voc, err := vpLoadVocab()
		if err != nil {
			t.Fatalf("vocab: %v", err)
		}
		e2eEvery := 1
		if len(env.cases) > 40000 {
			e2eEvery = len(env.cases) / 40000
		}
		keys, groups := vpGroup(env.cases, func(c *vpCase) string { return vpS(c.In, "wl") })
		vpRunGroups(keys, groups, env.seed, func(rng *mrand.Rand, key string, cs []*vpCase) {
			wl := vpWhitelists[key]
			val := redirect.NewValidator(wl)
			w, err := vpNewWorld(&vpCfg{Whitelist: wl, Htpasswd: true})
			if err != nil {
				for _, c := range cs {
					env.emit(vpOut{ID: c.ID, Err: "world: " + err.Error()})
				}
				return
			}
			defer w.close()
			for k, c := range cs {
				seq := vpSeq(c.In["s"])
				text := vpRedirectText(voc, seq)
				obs := map[string]interface{}{"panic": false}
				func() {
					defer func() {
						if e := recover(); e != nil {
							obs["panic"] = true
						}
					}()
					obs["accepted"] = val.IsValidRedirect(text)
				}()
				// end to end for accepted strings (and a stride of the others): what do the endpoints put on the wire
				if obs["accepted"] == true || k%(17*e2eEvery) == 0 {
					_, mustRun := c.Req["landsOnInput"]
					if k%e2eEvery == 0 || mustRun {
						em := map[string]interface{}{}
						// sign-out
						r := w.do(vpReq{Target: w.prefix() + "/sign_out?rd=" + url.QueryEscape(text), Host: "app.internal.test"})
						em["sign_out"] = vpRedirectTokens(voc, r.Location)
						// start -> IdP -> callback (the redirect travels in the state)
						j := vpNewJar()
						s := w.do(vpReq{Target: w.prefix() + "/start?rd=" + url.QueryEscape(text), Host: "app.internal.test"})
						j.applyAll(s)
						if code, state, err := w.idp.authorize(s.Location, "alice"); err == nil {
							q := url.Values{"code": {code}, "state": {state}}
							cb := w.do(vpReq{Target: w.prefix() + "/callback?" + q.Encode(), Cookie: j.header(), Host: "app.internal.test"})
							em["callback"] = vpRedirectTokens(voc, cb.Location)
							em["callback_status"] = cb.Status
							obs["landsOnInput"] = cb.Status == 302 && cb.Location == text
						}
						// form sign-in
						form := url.Values{"username": {"hpuser"}, "password": {"hppass"}, "rd": {text}}
						f := w.do(vpReq{Method: "POST", Target: w.prefix() + "/sign_in", Body: form.Encode(), Form: true, Host: "app.internal.test"})
						em["sign_in"] = vpRedirectTokens(voc, f.Location)
						// header source
						x := w.do(vpReq{Target: w.prefix() + "/sign_out", Host: "app.internal.test", Header: [][2]string{{"X-Auth-Request-Redirect", text}}})
						if !strings.ContainsAny(text, "\n\x01\t") {
							em["xarr"] = vpRedirectTokens(voc, x.Location)
						}
						obs["emitted"] = em
						obs["input"] = vpRedirectTokens(voc, text)
					}
				}
				env.emit(vpOut{ID: c.ID, Obs: obs, Conc: map[string]interface{}{"text": fmt.Sprintf("%q", text)}})
			}
		})
	})
}
