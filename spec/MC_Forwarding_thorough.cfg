CONSTANTS
  MaxHeaders = 4
INIT Init
NEXT Next
INVARIANTS C16_Ignored EmitCase
CHECK_DEADLOCK FALSE
