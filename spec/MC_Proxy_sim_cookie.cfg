CONSTANTS
  MaxSteps = 25
  Store = "cookie"
  RefreshOn = TRUE
INIT Init
NEXT Next
INVARIANTS Isolation Ended EmitCase
CHECK_DEADLOCK FALSE
