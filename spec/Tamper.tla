-------------------------------- MODULE Tamper --------------------------------
(* C02, binding to the code: the attacker's operators of Crypto.tla as classes.    *)
(* TLC enumerates (credential kind x operator x secret form); the driver            *)
(* concretises every class EXHAUSTIVELY over the positions / lengths / separators    *)
(* inside it against credentials issued by the real proxy and reports how many       *)
(* instances were accepted and how many of those decoded to something else than      *)
(* what was issued.                                                                  *)
EXTENDS Naturals, Sequences, FiniteSets, TLC, Json, CSV

CONSTANTS SecretForms, Stride      \* Stride: 1 = every position; k = every k-th position plus all positions near separators

Vocab == [ atoms |-> [ none |-> "" ] ]

Creds == {"cookie1", "cookie2", "cookie3", "ticket", "csrf", "csrf_perreq"}
Split(c) == c \in {"cookie2", "cookie3"}

\* operators on one issued credential A (and a second valid credential B of another user where needed)
FieldOps  == {"subst_value", "subst_ts", "subst_sig", "trunc", "extend", "ts_edit", "boundary_shift", "resign",
              "sigtrunc_ts_edit", "sigtrunc_subst_value", "drop_separator"}
PairOps   == {"splice_fields"}                        \* pieces of two valid cookies recombined at the field separators
NameOps   == {"transplant_name", "transplant_prefixed"}  \* value moved to another cookie name the proxy reads (as is / with the name suffix prepended)
PartOps   == {"parts_drop", "parts_dup", "parts_permute", "parts_recombine"}
\* values the proxy never produced: the signed envelope removed (payload alone, decoded or not, re-encoded), and a cookie the
\* attacker planted in the browser BEFORE the login (hand-made ticket / payload): neither may ever load as a session
ForeignOps == {"strip_envelope", "planted"}
\* the stream cipher that hides the session is malleable: whoever knows the plaintext of the LAST cipher block (the holder of a session
\* knows his own) can rewrite it without any key - end of the last field and the compression frame's checksum included.  Only the
\* MAC stands between that and a forged session, so this is the operator that tells whether the MAC covers the value to its end.
CraftedOps == {"known_plaintext_tail"}
\* no alteration at all, but many sessions issued at the same time: every cookie handed out decodes to exactly the session it was issued for
ConcurrentOps == {"concurrent_issue"}
Ops(c) == FieldOps \cup PairOps \cup NameOps \cup ForeignOps \cup (IF Split(c) THEN PartOps ELSE {})
          \cup (IF c \in {"cookie1", "cookie2", "cookie3"} THEN CraftedOps ELSE {})
          \cup (IF c = "cookie1" THEN ConcurrentOps ELSE {})

VARIABLE c
\* expire = "zero": cookie-expire 0 (browser-session cookies, no age limit): everything else about a credential is as binding as ever
FirstForm == CHOOSE sf \in SecretForms : TRUE
Init == \E cr \in Creds, sf \in SecretForms, ex \in {"default", "zero"} : \E op \in Ops(cr) :
          /\ c = [cred |-> cr, op |-> op, secret |-> sf, stride |-> Stride, expire |-> ex]
          /\ (ex = "zero" => sf = FirstForm /\ cr \in {"cookie1", "cookie2", "ticket", "csrf"})
Next == UNCHANGED c

\* whatever the instance: rejected, or exactly the issued credential; nothing recoverable in clear
CaseRec == [fam |-> "tamper", in |-> c, req |-> [acceptedDifferent |-> 0, leak |-> FALSE, instances |-> [ge |-> 1], panic |-> FALSE]
                                              @@ (IF c.op \in ForeignOps THEN [accepted |-> 0] ELSE <<>>)
                                              \* adopted: saves that took the store key or the encryption secret for the new session from the planted
                                              \* cookie - the planter could then read the entry ("nothing the proxy did not itself produce is accepted")
                                              @@ (IF c.op = "planted" THEN [adopted |-> 0] ELSE <<>>)]
EmitVocab == JsonSerialize("vocab.json", Vocab)
EmitCase  == CSVWrite("%1$s", <<ToJson(CaseRec)>>, "cases.ndjson")
=============================================================================
