------------------------------ MODULE MC_Login ------------------------------
EXTENDS Login
ASSUME EmitVocab
\* advertise: the code_challenge_methods_supported list of the IdP's discovery document (both | plain | s256 | absent); whatever it says,
\* the configured method is the one every authorization request must carry
O2(pr, es, pk, sn, idn, advm) == [perReq |-> pr, encodeState |-> es, pkce |-> pk, skipNonce |-> sn, idpNonce |-> idn, advertise |-> advm]
O(pr, es, pk, sn, idn) == O2(pr, es, pk, sn, idn, "both")
QuickOptions == { O(TRUE, FALSE, "S256", FALSE, "echo"), O(FALSE, TRUE, "none", FALSE, "echo"),
                  O(TRUE, TRUE, "none", TRUE, "echo"), O(FALSE, FALSE, "plain", FALSE, "echo"),
                  O(TRUE, FALSE, "none", FALSE, "other"), O(FALSE, FALSE, "S256", FALSE, "absent"),
                  O(TRUE, FALSE, "none", FALSE, "empty"), O(TRUE, FALSE, "none", FALSE, "raw"), O(FALSE, FALSE, "none", TRUE, "absent"),
                  O(TRUE, FALSE, "none", FALSE, "replay"), O(FALSE, FALSE, "S256", FALSE, "replay"),
                  \* absent_profile: the ID token carries no nonce, but the (unsigned) profile document volunteers the right one - still "no nonce"
                  O(TRUE, FALSE, "none", FALSE, "absent_profile"), O(FALSE, FALSE, "S256", FALSE, "absent_profile"), O(FALSE, FALSE, "none", TRUE, "replay"),
                  O2(FALSE, FALSE, "S256", FALSE, "echo", "plain"), O2(TRUE, FALSE, "plain", FALSE, "echo", "s256"), O2(FALSE, TRUE, "S256", FALSE, "echo", "absent") }
AllOptions == [perReq : BOOLEAN, encodeState : BOOLEAN, pkce : {"none", "S256", "plain"}, skipNonce : BOOLEAN,
               idpNonce : {"echo", "other", "empty", "absent", "raw", "replay", "absent_profile"}, advertise : {"both"}]
              \cup { O2(pr, FALSE, pk, FALSE, "echo", advm) : pr \in BOOLEAN, pk \in {"S256", "plain"}, advm \in {"plain", "s256", "absent"} }
=============================================================================
