CONSTANTS
  SecretForms = {"raw32", "b64_16"}
  Stride = 7
INIT Init
NEXT Next
INVARIANTS EmitCase
CHECK_DEADLOCK FALSE
