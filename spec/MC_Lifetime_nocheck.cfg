CONSTANTS
  Grids <- QuickGrids
  Modes = {"ok"}
  Stores = {"cookie"}
  MaxReqs = 2
  ExpireCheck = FALSE
INIT Init
NEXT Next
INVARIANTS C09_Lifetime
CHECK_DEADLOCK FALSE
