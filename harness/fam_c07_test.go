//go:build verif

package main

import (
	"encoding/base64"
	"fmt"
	mrand "math/rand"
	"net/http"
	"net/url"
	"strings"
	"testing"
)

const (
	vpSpoof1      = "spoof-one"
	vpSpoof2      = "spoof-two"
	vpBasicPw     = "vp-basic-pw"
	vpTrustedAddr = "198.51.100.7"
)

func vpSpell(name, shape string) string {
	switch shape {
	case "lower":
		return strings.ToLower(name)
	case "upper":
		return strings.ToUpper(name)
	case "mixed":
		b := []byte(strings.ToLower(name))
		for i := range b {
			if i%2 == 1 && b[i] >= 'a' && b[i] <= 'z' {
				b[i] -= 32
			}
		}
		return string(b)
	}
	return name
}

// c07: identity headers at the upstream and on the auth-only response
func init() {
	vpRegister("c07", func(t *testing.T, env *vpEnv) {
		keys, groups := vpGroup(env.cases, func(c *vpCase) string {
			src := vpS(c.In, "source")
			if vpB(c.In, "struct") {
				return fmt.Sprint("struct", c.In["endpoint"], c.In["spelling"], c.In["preserve"], c.In["kind"], c.In["claim"], src == "basic", c.In["neighbour"])
			}
			return fmt.Sprint(vpJSON(c.In["flags"]), c.In["store"], src == "basic" || src == "form", src == "cookie_minimal")
		})
		vpRunGroups(keys, groups, env.seed, func(rng *mrand.Rand, key string, cs []*vpCase) {
			in0 := cs[0].In
			fl := vpM(in0, "flags")
			src0 := vpS(in0, "source")
			needHt := src0 == "basic" || src0 == "form"
			cfg := &vpCfg{Store: vpS(in0, "store"), Bearer: true, ExtraIssuer: true, Htpasswd: needHt, HtpasswdGroups: []string{"hg1"},
				TrustedIPs: []string{vpTrustedAddr},
				Legacy: map[string]bool{"passBasicAuth": vpB(fl, "pba"), "passAccessToken": vpB(fl, "pat"), "passUserHeaders": vpB(fl, "puh"),
					"passAuthorization": vpB(fl, "paz"), "setXAuthRequest": vpB(fl, "sx"), "setBasicAuth": vpB(fl, "sba"),
					"setAuthorization": vpB(fl, "saz"), "preferEmailToUser": vpB(fl, "pe"), "skipAuthStripHeaders": vpB(fl, "strip")}}
			if vpB(fl, "pw") {
				cfg.BasicPw = vpBasicPw
			}
			cfg.CookieMinimal = src0 == "cookie_minimal"
			structured := vpB(in0, "struct")
			if structured {
				// one header, spelled the way the operator wrote it, in the structured option format
				name := "X-Vp-Ident"
				if sp := vpS(in0, "spelling"); sp != "canonical" {
					name = vpSpell(name, sp)
				}
				claim := map[string]string{"user": "user", "email": "email", "groups": "groups", "pu": "preferred_username", "at": "access_token", "unknown": "no_such_claim"}[vpS(in0, "claim")]
				h := vpHeaderCfg{Name: name, Claim: claim, Preserve: vpB(in0, "preserve")}
				hs := []vpHeaderCfg{h}
				switch vpS(in0, "kind") {
				case "prefixed":
					hs[0].Prefix = "P "
				case "basic":
					hs[0].BasicPw = vpBasicPw
				case "two":
					hs = append(hs, vpHeaderCfg{Name: name, Claim: "email", Preserve: h.Preserve})
				case "dup":
					hs = append(hs, vpHeaderCfg{Name: name, Claim: claim, Preserve: h.Preserve})
				case "none":
					hs[0].NoValues = true
				}
				switch vpS(in0, "neighbour") {
				case "preserved_before":
					hs = append([]vpHeaderCfg{{Name: "X-Vp-Other", Claim: "email", Preserve: true}}, hs...)
				case "preserved_after":
					hs = append(hs, vpHeaderCfg{Name: "X-Vp-Other", Claim: "email", Preserve: true})
				}
				cfg.Legacy = nil
				cfg.Structured = true
				if vpS(in0, "endpoint") == "upstream" {
					cfg.ReqHdrs = hs
				} else {
					cfg.RespHdrs = hs
				}
			}
			w, err := vpNewWorld(cfg)
			if err != nil {
				for _, c := range cs {
					env.emit(vpOut{ID: c.ID, Err: "world: " + err.Error()})
				}
				return
			}
			defer w.close()
			w.idp.addUser("nogrp", vpUser{Sub: "sub-nogrp", Email: "nogrp@example.com"})
			w.idp.addUser("egrp", vpUser{Sub: "sub-egrp", Email: "egrp@example.com", Groups: []string{"", "g1", "g2"}, Username: "egrp"})
			for _, c := range cs {
				in := c.In
				src := vpS(in, "source")
				spoof := vpS(in, "spoof")
				ep := vpS(in, "endpoint")
				// --- establish the credential
				jar := vpNewJar()
				var hdr [][2]string
				sess := map[string]string{} // concrete values of the session fields
				var grp []string
				cred := ""
				loginAs := func(u string) bool {
					cb, err := w.login(jar, u, "")
					if err != nil || w.sessionCookieEffect(cb) != "set" {
						env.emit(vpOut{ID: c.ID, Err: fmt.Sprintf("login failed: %v", err)})
						return false
					}
					usr := w.idp.user(u)
					sess["user"], sess["email"], sess["pu"] = usr.Sub, usr.Email, usr.Username
					w.idp.mu.Lock()
					sess["at"], sess["it"] = w.idp.lastAccessTok, w.idp.lastIDToken
					w.idp.mu.Unlock()
					grp = usr.Groups
					return true
				}
				ok := true
				switch src {
				case "cookie", "cookie_bypass":
					ok = loginAs("alice")
				case "cookie_minimal":
					ok = loginAs("alice")
					sess["at"], sess["it"] = "", "" // the minimal cookie carries no tokens
				case "cookie_nogrp":
					ok = loginAs("nogrp")
				case "cookie_emptygrp":
					ok = loginAs("egrp")
					grp = []string{"g1", "g2"} // the empty name is no value
				case "bearer", "xbearer":
					idp := w.idp
					if src == "xbearer" {
						idp = w.xidp
					}
					tok := idp.mintIDToken("alice", nil, "")
					cred = "Bearer " + tok
					usr := vpUsers["alice"]
					sess["user"], sess["email"], sess["pu"], sess["at"], sess["it"] = usr.Sub, usr.Email, usr.Username, tok, tok
					grp = usr.Groups
				case "basic":
					cred = "Basic " + base64.StdEncoding.EncodeToString([]byte("hpuser:hppass"))
					sess["user"] = "hpuser"
					grp = []string{"hg1"}
				case "form":
					form := url.Values{"username": {"hpuser"}, "password": {"hppass"}}
					r := w.do(vpReq{Method: "POST", Target: w.prefix() + "/sign_in", Body: form.Encode(), Form: true})
					jar.applyAll(r)
					if w.sessionCookieEffect(r) != "set" {
						env.emit(vpOut{ID: c.ID, Err: fmt.Sprintf("form sign-in failed: %d", r.Status)})
						ok = false
					}
					sess["user"] = "hpuser"
					grp = []string{"hg1"}
				case "none_bypass":
				}
				if !ok {
					continue
				}
				if cred != "" {
					hdr = append(hdr, [2]string{"Authorization", cred})
				}
				// --- spoof every configured request header name
				var names []string
				for _, h := range w.opts.InjectRequestHeaders {
					names = append(names, h.Name)
				}
				for _, n := range names {
					if n == "Authorization" && cred != "" {
						continue
					}
					switch spoof {
					case "absent":
					case "repeated":
						hdr = append(hdr, [2]string{n, vpSpoof1}, [2]string{strings.ToLower(n), vpSpoof2})
					case "comma":
						hdr = append(hdr, [2]string{n, vpSpoof1 + "," + vpSpoof2})
					case "canonical":
						hdr = append(hdr, [2]string{http.CanonicalHeaderKey(n), vpSpoof1})
					default:
						hdr = append(hdr, [2]string{vpSpell(n, spoof), vpSpoof1})
					}
				}
				if structured && ep == "authonly" && spoof != "absent" {
					// a request header named like the configured RESPONSE header must not come back
					hdr = append(hdr, [2]string{"X-Vp-Ident", vpSpoof1})
				}
				req := vpReq{Target: "/private/x?y=1", Cookie: jar.header(), Header: hdr}
				if ep == "authonly" {
					req.Target = w.prefix() + "/auth"
				}
				if src == "cookie_bypass" || src == "none_bypass" {
					req.RemoteAddr = vpTrustedAddr + ":5555"
				}
				r := w.do(req)
				// --- projection table: concrete piece -> tag
				table := map[string][]string{vpSpoof1: {"client", "s1"}, vpSpoof2: {"client", "s2"}}
				if cred != "" && strings.HasPrefix(cred, "Basic ") {
					table[cred] = []string{"client", "cred"}
				}
				pw := cfg.BasicPw
				for _, f := range []string{"user", "email", "pu", "at", "it"} {
					v := sess[f]
					if v == "" {
						continue
					}
					if _, dup := table[v]; !dup {
						table[v] = []string{"plain", f}
					}
					table["Bearer "+v] = []string{"bearer", map[string]string{"at": "it"}[f] + map[string]string{"user": "user", "email": "email", "pu": "pu", "it": "it"}[f]}
					b := "Basic " + base64.StdEncoding.EncodeToString([]byte(v+":"+pw))
					if _, dup := table[b]; !dup {
						table[b] = []string{"basic", f}
					}
					if structured {
						// (a bearer session's access token IS its ID token: the first field to claim a concrete value keeps it, as above)
						for k, tg := range map[string][]string{"Basic " + base64.StdEncoding.EncodeToString([]byte(v+":"+vpBasicPw)): {"basic", f}, "P " + v: {"prefixed", f}} {
							if _, dup := table[k]; !dup {
								table[k] = tg
							}
						}
					}
				}
				for _, g := range grp {
					table[g] = []string{"plain", g}
					if structured {
						table["Basic "+base64.StdEncoding.EncodeToString([]byte(g+":"+vpBasicPw))] = []string{"basic", g}
						table["P "+g] = []string{"prefixed", g}
					}
				}
				project := func(hs http.Header, name string) []interface{} {
					tags := []interface{}{}
					for _, v := range hs.Values(name) {
						for _, piece := range strings.Split(v, ",") {
							if tg, ok := table[piece]; ok {
								tags = append(tags, []interface{}{tg[0], tg[1]})
							} else {
								if len(piece) > 40 {
									piece = piece[:40] + "..."
								}
								tags = append(tags, []interface{}{"unknown", piece})
							}
						}
					}
					return tags
				}
				obs := map[string]interface{}{"status": r.Status, "panic": r.Panic != ""}
				hl := []interface{}{}
				if ep == "upstream" {
					obs["served"] = r.UpHits > 0
					if r.UpLast != nil {
						for _, n := range names {
							nn := n
							if structured {
								if strings.EqualFold(n, "X-Vp-Other") {
									continue // the neighbour is configuration, not the header under observation
								}
								nn = "X-Vp-Ident"
							}
							hl = append(hl, map[string]interface{}{"name": nn, "tags": project(r.UpLast.Header, n)})
						}
					}
				} else {
					obs["served"] = r.Status == 202
					for _, h := range w.opts.InjectResponseHeaders {
						n := h.Name
						if structured {
							n = "X-Vp-Ident"
						}
						hl = append(hl, map[string]interface{}{"name": n, "tags": project(r.Header, h.Name)})
					}
				}
				obs["headers"] = hl
				env.emit(vpOut{ID: c.ID, Obs: obs, Conc: map[string]interface{}{"target": req.Target, "headers": hdr, "remote": req.RemoteAddr}})
			}
		})
	})
}
