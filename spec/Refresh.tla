------------------------------- MODULE Refresh -------------------------------
(* C12 (and the fault positions of C13): the refresh path of the stored-session  *)
(* loader with a server-side store, one program counter per in-flight request,    *)
(* one action per store / lock / identity-provider operation of                   *)
(* pkg/middleware/stored_session.go:                                               *)
(*   Load -> [stale] Obtain (retry while held) -> Reload -> [still stale]          *)
(*   RefreshAtIdP -> Save -> Validate -> Release -> Serve | Clear                  *)
(* Token generations: the login issued generation 0 (made stale by age); every     *)
(* successful refresh with the currently valid refresh token yields the next       *)
(* generation and, with rotating tokens, invalidates the token it consumed.        *)
EXTENDS Naturals, Sequences, FiniteSets, TLC, Json, CSV

CONSTANTS Reqs,          \* set of concurrent requests, e.g. {1, 2}
          Mode,          \* "ok" | "failvalid" (refresh fails, ID token still valid) | "failinvalid" (refresh fails, ID token expired) | "norotate"
          StartStale,    \* TRUE: the shared session is older than the refresh period
          LockExpires,   \* TRUE: the lock may expire while held (slow provider); only safety is asserted then
          MaxRetry,      \* bound on failed obtain attempts per request
          UseLock,       \* FALSE: named deviation "no lock" (what the cookie store does) - selftest
          ReloadAfterLock, \* FALSE: named deviation "no reload under the lock" - selftest
          SignOuts,      \* the requests (a subset of Reqs) that are SIGN-OUTS: they pass the same session loader (a stale session is refreshed
                         \* under the lock first) and then delete the stored session instead of being served (C11 under concurrency)
          SignOutRefreshes \* FALSE: named deviation "sign-out bypasses the loader's refresh path" (deletes without taking the lock) - selftest

Vocab == [ atoms |-> [ none |-> "" ] ]
Absent == 99

VARIABLES stored,    \* generation stored under the ticket, or Absent
          lock,      \* 0 = free, r = held by request r
          validRT,   \* generation whose refresh token the IdP currently accepts
          calls,     \* refresh calls seen by the IdP (accepted or rejected)
          pc, sess, tries, refreshed, validated, result, servedGen, hist
vars == <<stored, lock, validRT, calls, pc, sess, tries, refreshed, validated, result, servedGen, hist>>

Stale(g) == StartStale /\ g = 0
RefreshWorks == Mode \in {"ok", "norotate"}
IDTokenValid == Mode # "failinvalid"

Init == /\ stored = 0 /\ lock = 0 /\ validRT = 0 /\ calls = 0
        /\ pc = [r \in Reqs |-> "load"] /\ sess = [r \in Reqs |-> Absent] /\ tries = [r \in Reqs |-> 0]
        /\ refreshed = [r \in Reqs |-> FALSE] /\ validated = [r \in Reqs |-> FALSE]
        /\ result = [r \in Reqs |-> "none"] /\ servedGen = [r \in Reqs |-> Absent]
        /\ hist = <<>>

Step(r, a) == hist' = Append(hist, [a |-> a, args |-> [r |-> r]])
Keep(vs) == UNCHANGED vs

Load(r) ==
    /\ pc[r] = "load"
    /\ IF stored = Absent
       THEN /\ pc' = [pc EXCEPT ![r] = "done"] /\ result' = [result EXCEPT ![r] = "unauth"] /\ UNCHANGED sess
       ELSE /\ sess' = [sess EXCEPT ![r] = stored]
            /\ pc' = [pc EXCEPT ![r] = IF r \in SignOuts /\ ~SignOutRefreshes THEN "serve"
                                       ELSE IF Stale(stored) THEN (IF UseLock THEN "obtain" ELSE "refresh") ELSE "serve"]
            /\ UNCHANGED result
    /\ Step(r, "load")
    /\ UNCHANGED <<stored, lock, validRT, calls, tries, refreshed, validated, servedGen>>

ObtainOk(r) ==
    /\ pc[r] = "obtain" /\ lock = 0
    /\ lock' = r
    /\ pc' = [pc EXCEPT ![r] = IF ReloadAfterLock THEN "reload" ELSE "refresh"]
    /\ Step(r, "obtain_ok")
    /\ UNCHANGED <<stored, validRT, calls, sess, tries, refreshed, validated, result, servedGen>>
ObtainFail(r) ==
    /\ pc[r] = "obtain" /\ lock # 0 /\ tries[r] < MaxRetry
    /\ tries' = [tries EXCEPT ![r] = @ + 1]
    /\ Step(r, "obtain_fail")
    /\ UNCHANGED <<stored, lock, validRT, calls, pc, sess, refreshed, validated, result, servedGen>>

Reload(r) ==
    /\ pc[r] = "reload"
    /\ IF stored = Absent
       THEN /\ pc' = [pc EXCEPT ![r] = "release_err"] /\ UNCHANGED sess
       ELSE /\ sess' = [sess EXCEPT ![r] = stored]
            /\ pc' = [pc EXCEPT ![r] = IF Stale(stored) THEN "refresh" ELSE "release_ok"]
    /\ Step(r, "reload")
    /\ UNCHANGED <<stored, lock, validRT, calls, tries, refreshed, validated, result, servedGen>>

\* the IdP accepts the refresh token of the generation it currently considers valid
RefreshAtIdP(r) ==
    /\ pc[r] = "refresh"
    /\ calls' = calls + 1
    /\ IF RefreshWorks /\ validRT = sess[r]
       THEN /\ validRT' = IF Mode = "ok" THEN validRT + 1 ELSE validRT
            /\ sess' = [sess EXCEPT ![r] = @ + 1]
            /\ refreshed' = [refreshed EXCEPT ![r] = TRUE]
            /\ pc' = [pc EXCEPT ![r] = "save"]
            /\ Step(r, "refresh_ok")
       ELSE /\ pc' = [pc EXCEPT ![r] = "refresh_retry"]
            /\ Step(r, "refresh_fail")
            /\ UNCHANGED <<validRT, sess, refreshed>>
    /\ UNCHANGED <<stored, lock, tries, validated, result, servedGen>>
\* a rejected token request is repeated once with the other client-authentication style (golang.org/x/oauth2 probes
\* header vs. body credentials on every call because the configuration object is rebuilt per call); then the error is
\* only logged and validation decides
RefreshRetry(r) ==
    /\ pc[r] = "refresh_retry"
    /\ calls' = calls + 1
    /\ pc' = [pc EXCEPT ![r] = "validate"]
    /\ Step(r, "refresh_fail")
    /\ UNCHANGED <<stored, lock, validRT, sess, tries, refreshed, validated, result, servedGen>>

Save(r) ==
    /\ pc[r] = "save"
    /\ stored' = sess[r]
    /\ pc' = [pc EXCEPT ![r] = "validate"]
    /\ Step(r, "save")
    /\ UNCHANGED <<lock, validRT, calls, sess, tries, refreshed, validated, result, servedGen>>

\* validateSession: not expired and the ID token verifies (no store or network operation: taken together with the next step)
Validate(r) ==
    /\ pc[r] = "validate"
    /\ validated' = [validated EXCEPT ![r] = IDTokenValid]
    /\ pc' = [pc EXCEPT ![r] = IF IDTokenValid THEN (IF UseLock THEN "release_ok" ELSE "serve") ELSE (IF UseLock THEN "release_err" ELSE "clear")]
    /\ UNCHANGED <<stored, lock, validRT, calls, sess, tries, refreshed, result, servedGen, hist>>

Release(r) ==
    /\ pc[r] \in {"release_ok", "release_err"}
    /\ lock' = IF lock = r THEN 0 ELSE lock
    /\ pc' = [pc EXCEPT ![r] = IF pc[r] = "release_ok" THEN "serve" ELSE "clear"]
    /\ Step(r, "release")
    /\ UNCHANGED <<stored, validRT, calls, sess, tries, refreshed, validated, result, servedGen>>

Clear(r) ==
    /\ pc[r] = "clear"
    /\ stored' = Absent
    /\ pc' = [pc EXCEPT ![r] = "done"] /\ result' = [result EXCEPT ![r] = "unauth"]
    /\ Step(r, "clear")
    /\ UNCHANGED <<lock, validRT, calls, sess, tries, refreshed, validated, servedGen>>

\* forwarding upstream touches no shared state: no schedule point of its own
Serve(r) ==
    /\ pc[r] = "serve" /\ r \notin SignOuts
    /\ pc' = [pc EXCEPT ![r] = "done"] /\ result' = [result EXCEPT ![r] = "served"] /\ servedGen' = [servedGen EXCEPT ![r] = sess[r]]
    /\ UNCHANGED <<stored, lock, validRT, calls, sess, tries, refreshed, validated, hist>>

\* the sign-out handler: the session the loader produced is ended - the store entry is deleted (one store operation), the answer is the
\* success redirect
Delete(r) ==
    /\ pc[r] = "serve" /\ r \in SignOuts
    /\ stored' = Absent
    /\ pc' = [pc EXCEPT ![r] = "done"] /\ result' = [result EXCEPT ![r] = "signedout"]
    /\ Step(r, "delete")
    /\ UNCHANGED <<lock, validRT, calls, sess, tries, refreshed, validated, servedGen>>

LockExpire ==
    /\ LockExpires /\ lock # 0
    /\ lock' = 0
    /\ hist' = Append(hist, [a |-> "lock_expire", args |-> [r |-> 0]])
    /\ UNCHANGED <<stored, validRT, calls, pc, sess, tries, refreshed, validated, result, servedGen>>

Next == (\E r \in Reqs : Load(r) \/ ObtainOk(r) \/ ObtainFail(r) \/ Reload(r) \/ RefreshAtIdP(r) \/ RefreshRetry(r) \/ Save(r) \/ Validate(r)
                          \/ Release(r) \/ Clear(r) \/ Serve(r) \/ Delete(r))
        \/ LockExpire

\* ---- properties --------------------------------------------------------------------------------
AllDone == \A r \in Reqs : pc[r] = "done"
\* never honoured stale without refresh or re-validation
NoStaleServe == \A r \in Reqs : result[r] = "served" => (~Stale(servedGen[r]) \/ refreshed[r] \/ validated[r])
\* neither refresh nor validation succeeds: unauthenticated, entry cleared
FailClosed == (Mode = "failinvalid" /\ StartStale) => (\A r \in Reqs : result[r] # "served") /\ (AllDone => stored = Absent)
\* with a working provider everybody who is served carries what is stored (the new tokens)
NewTokensVisible == (RefreshWorks /\ ~LockExpires /\ SignOuts = {}) => \A r \in Reqs : result[r] = "served" => (servedGen[r] = stored /\ ~Stale(servedGen[r]))
\* exactly one refresh at the provider, everybody served (the property's proviso: lock does not expire)
OneRefresh == (AllDone /\ StartStale /\ RefreshWorks /\ ~LockExpires) => calls = 1
AllServed  == (AllDone /\ RefreshWorks /\ ~LockExpires /\ SignOuts = {}) => \A r \in Reqs : result[r] = "served"
\* C11 under concurrency: once a sign-out has been answered with success and everything in flight has finished, the stored session is
\* gone - a refresh that was in flight in another request must not bring it back
SignedOutStays == (AllDone /\ ~LockExpires /\ \E r \in SignOuts : result[r] = "signedout") => stored = Absent

CaseRec == [fam |-> "sched", cfg |-> [mode |-> Mode, stale |-> StartStale, lockExpires |-> LockExpires, n |-> Cardinality(Reqs), signouts |-> SignOuts],
            in |-> [mode |-> Mode, n |-> Cardinality(Reqs)], steps |-> hist,
            impl |-> [calls |-> calls, stored |-> stored, results |-> [r \in Reqs |-> [result |-> result[r], gen |-> servedGen[r]]]]]
EmitVocab == JsonSerialize("vocab.json", Vocab)
EmitCase  == AllDone => CSVWrite("%1$s", <<ToJson(CaseRec)>>, "cases.ndjson")
=============================================================================
