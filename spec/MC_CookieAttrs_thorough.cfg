CONSTANTS
  Tier = "thorough"
INIT Init
NEXT Next
INVARIANTS ImplMeetsReq EmitCase
CHECK_DEADLOCK FALSE
