CONSTANTS
  MaxStartsB1 = 2
  MaxStartsB2 = 1
  MaxSteps = 3
  OptionSets <- AllOptions
INIT Init
NEXT Next
INVARIANTS C03_Binding C05_Nonce C03_Converse C03_ConverseFixed EmitCase
CHECK_DEADLOCK FALSE
