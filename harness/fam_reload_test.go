//go:build verif

package main

import (
	"crypto/sha1"
	"encoding/base64"
	"fmt"
	mrand "math/rand"
	"os"
	"path/filepath"
	"sort"
	"strings"
	"sync"
	"sync/atomic"
	"testing"
	"time"

	"github.com/oauth2-proxy/oauth2-proxy/v7/pkg/authentication/basic"
	"golang.org/x/crypto/bcrypt"
)

// reload: C20 - concurrent validations while the htpasswd / authenticated-e-mails file is rewritten. Recorded histories are
// judged by Trace_Reload.tla; the driver is built with -race (the orchestrator counts race reports).

type vpRelVersion struct {
	bulk  bool // preceded by 30 000 filler entries
	good  bool
	users [][2]string // key, secret (htpasswd: user, password; e-mails: address, "")
}

type vpRelLog struct {
	mu  sync.Mutex
	evs []map[string]interface{}
}

func (l *vpRelLog) add(ev map[string]interface{}) {
	l.mu.Lock()
	l.evs = append(l.evs, ev)
	l.mu.Unlock()
}

func vpGenVersions(rng *mrand.Rand, n int, emails bool) []vpRelVersion {
	keys := []string{"ann", "bob", "cyd", "dan", "eve", "fay"}
	cur := map[string]string{"ann": "p1", "bob": "p1", "cyd": "p1"}
	snap := func() [][2]string {
		var ks []string
		for k := range cur {
			ks = append(ks, k)
		}
		sort.Strings(ks)
		var out [][2]string
		for _, k := range ks {
			if emails {
				out = append(out, [2]string{k + "@example.com", ""})
			} else {
				out = append(out, [2]string{k, cur[k]})
			}
		}
		return out
	}
	vs := []vpRelVersion{{good: true, users: snap()}}
	for len(vs) < n {
		switch rng.Intn(5) {
		case 0: // malformed version in between
			vs = append(vs, vpRelVersion{good: false})
			continue
		case 1: // add
			k := keys[rng.Intn(len(keys))]
			cur[k] = fmt.Sprintf("p%d", 1+rng.Intn(3))
		case 2: // remove (never the last entry)
			if len(cur) > 1 {
				for k := range cur {
					delete(cur, k)
					break
				}
			}
		default: // change a password
			for k := range cur {
				cur[k] = fmt.Sprintf("p%d", 1+rng.Intn(3))
				break
			}
		}
		// one version in six is LARGE: the same entries preceded by 30 000 others (well over a megabyte) - the contents are what counts
		vs = append(vs, vpRelVersion{good: true, users: snap(), bulk: !emails && rng.Intn(6) == 0})
	}
	return vs
}

func vpRenderVersion(v vpRelVersion, emails bool) string {
	if !v.good {
		// well-formed entries first (zed is in no good version, fay gets a password of its own), then the line that does not parse:
		// nothing of a version that fails to parse may ever be in force, neither now nor after the next good reload
		if emails {
			return "zed@example.com\nann@example.com\n\"unterminated quote\nbob@example.com\n"
		}
		d := sha1.Sum([]byte("p1"))
		h := base64.StdEncoding.EncodeToString(d[:])
		return "zed:{SHA}" + h + "\nfay:{SHA}" + h + "\nann:{SHA}x:extra-field\nnot-a-valid-line\n"
	}
	var sb strings.Builder
	if v.bulk {
		d := sha1.Sum([]byte("filler"))
		h := base64.StdEncoding.EncodeToString(d[:])
		for i := 0; i < 30000; i++ {
			fmt.Fprintf(&sb, "bulk%05d:{SHA}%s\n", i, h)
		}
	}
	for _, u := range v.users {
		if emails {
			sb.WriteString(u[0] + "\n")
		} else if u[0] == "ann" || u[0] == "dan" {
			// bcrypt entries make a validation slow enough to overlap a reload
			h, _ := bcrypt.GenerateFromPassword([]byte(u[1]), bcrypt.MinCost)
			sb.WriteString(u[0] + ":" + string(h) + "\n")
		} else {
			d := sha1.Sum([]byte(u[1]))
			sb.WriteString(u[0] + ":{SHA}" + base64.StdEncoding.EncodeToString(d[:]) + "\n")
		}
	}
	return sb.String()
}

func vpRunReload(emails bool, nVersions, nValidators int, rng *mrand.Rand, dir string, hist int) ([]map[string]interface{}, error) {
	log := &vpRelLog{}
	vs := vpGenVersions(rng, nVersions, emails)
	kind := "htpasswd"
	if emails {
		kind = "emails"
	}
	log.add(map[string]interface{}{"kind": "begin_file", "file": kind, "n": len(vs), "hist": hist})
	for i, v := range vs {
		us := [][]string{}
		for _, u := range v.users {
			us = append(us, []string{u[0], u[1]})
		}
		log.add(map[string]interface{}{"kind": "version", "v": i + 1, "good": v.good, "users": us})
	}
	path := filepath.Join(dir, fmt.Sprintf("%s_%d", kind, hist))
	if err := os.WriteFile(path, []byte(vpRenderVersion(vs[0], emails)), 0o600); err != nil {
		return nil, err
	}
	var validate func(key, secret string) bool
	var current func() string // a rendering of what is in memory, for completion detection (htpasswd)
	var loadedCount int64
	if emails {
		v := newValidatorImpl([]string{}, path, nil, func() { atomic.AddInt64(&loadedCount, 1) })
		validate = func(key, _ string) bool { return v(key) }
	} else {
		hv, err := basic.NewHTPasswdValidator(path)
		if err != nil {
			return nil, err
		}
		validate = hv.Validate
		if g, ok := hv.(interface{ GetUsers() map[string]interface{} }); ok {
			current = func() string {
				m := g.GetUsers()
				var ks []string
				for k, v := range m {
					ks = append(ks, fmt.Sprintf("%s=%v", k, v))
				}
				sort.Strings(ks)
				return strings.Join(ks, ",")
			}
		}
	}
	// what GetUsers() shows once version v is in memory: taken from the text written to disk (bcrypt hashes are salted)
	expectRender := func(text string) string {
		var ks []string
		for _, line := range strings.Split(strings.TrimSpace(text), "\n") {
			p := strings.SplitN(line, ":", 2)
			if len(p) == 2 {
				ks = append(ks, fmt.Sprintf("%s=%v", p[0], strings.TrimPrefix(p[1], "{SHA}")))
			}
		}
		sort.Strings(ks)
		return strings.Join(ks, ",")
	}
	stop := make(chan struct{})
	var wg sync.WaitGroup
	var vid int64
	universeK := []string{"ann", "bob", "cyd", "dan", "eve", "fay", "zed"}
	for g := 0; g < nValidators; g++ {
		wg.Add(1)
		go func(g int) {
			defer wg.Done()
			r := mrand.New(mrand.NewSource(int64(hist*1000 + g)))
			for {
				select {
				case <-stop:
					return
				default:
				}
				key := universeK[r.Intn(len(universeK))]
				secret := fmt.Sprintf("p%d", 1+r.Intn(3))
				if emails {
					key, secret = key+"@example.com", ""
				}
				id := atomic.AddInt64(&vid, 1)
				log.add(map[string]interface{}{"kind": "vbegin", "id": id})
				ans := validate(key, secret)
				log.add(map[string]interface{}{"kind": "vend", "id": id, "key": key, "secret": secret, "answer": ans})
				if r.Intn(4) == 0 {
					time.Sleep(time.Duration(r.Intn(200)) * time.Microsecond)
				}
			}
		}(g)
	}
	// the writer: versions 2..n renamed into place
	for i := 1; i < len(vs); i++ {
		tmp := path + ".tmp"
		text := vpRenderVersion(vs[i], emails)
		if err := os.WriteFile(tmp, []byte(text), 0o600); err != nil {
			close(stop)
			wg.Wait()
			return nil, err
		}
		before := atomic.LoadInt64(&loadedCount)
		if !emails {
			// every version carries the same modification time (and password changes keep the size): contents decide, not metadata
			os.Chtimes(tmp, vpPinnedTime, vpPinnedTime)
		}
		log.add(map[string]interface{}{"kind": "write", "v": i + 1})
		if err := os.Rename(tmp, path); err != nil {
			close(stop)
			wg.Wait()
			return nil, err
		}
		// wait for the reload to complete (observable for good versions), bounded
		deadline := time.Now().Add(5 * time.Second)
		done := false
		for time.Now().Before(deadline) {
			if emails {
				if atomic.LoadInt64(&loadedCount) > before {
					done = true
					break
				}
			} else if vs[i].good && current != nil && current() == expectRender(text) {
				done = true
				break
			} else if !vs[i].good {
				break
			}
			time.Sleep(200 * time.Microsecond)
		}
		if !vs[i].good {
			time.Sleep(120 * time.Millisecond) // a failed parse is not observable: give it time, log nothing
		} else if done {
			// e-mails: the update hook fires after every load attempt, also failed ones; only good versions count as loaded
			log.add(map[string]interface{}{"kind": "loaded", "v": i + 1})
		} else if !emails && current != nil {
			// (htpasswd: completion is observable through the map; for the e-mails file the hook also fires for failed loads)
			log.add(map[string]interface{}{"kind": "notloaded", "v": i + 1})
			break
		}
		time.Sleep(time.Duration(rng.Intn(3)) * time.Millisecond)
	}
	time.Sleep(5 * time.Millisecond)
	close(stop)
	wg.Wait()
	return log.evs, nil
}

func init() {
	vpRegister("reload", func(t *testing.T, env *vpEnv) {
		dir, err := os.MkdirTemp(vpWorkDir(), "reload")
		if err != nil {
			t.Fatal(err)
		}
		defer os.RemoveAll(dir)
		rng := mrand.New(mrand.NewSource(env.seed))
		hists, versions := 6, 12
		sizes := []int{2, 4, 8}
		if env.tier == "thorough" {
			hists, versions = 16, 40
			sizes = []int{2, 4, 8, 16}
		}
		id := 0
		for _, emails := range []bool{false, true} {
			for h := 0; h < hists; h++ {
				id++
				evs, err := vpRunReload(emails, versions, sizes[h%len(sizes)], rng, dir, id)
				if err != nil {
					env.emit(vpOut{ID: id, Err: err.Error()})
					continue
				}
				env.emit(vpOut{ID: id, Steps: evs, Obs: map[string]interface{}{"emails": emails, "validators": sizes[h%len(sizes)]}})
			}
		}
	})
}
