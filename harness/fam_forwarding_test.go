//go:build verif

package main

import (
	"encoding/base64"
	"fmt"
	mrand "math/rand"
	"net/url"
	"regexp"
	"sort"
	"strings"
	"testing"
)

var vpAttrRe = regexp.MustCompile(`(?:href|action|value)="([^"]*)"`)

// vpProject: the observable projection of a response that C16 talks about (random nonces stripped)
func (w *vpWorld) project(r *vpResp) map[string]interface{} {
	out := map[string]interface{}{"status": r.Status, "class": w.classify(r), "upstream": r.UpHits}
	norm := func(loc string) string {
		loc = strings.ReplaceAll(loc, "&amp;", "&")
		if u, err := url.Parse(loc); err == nil && loc != "" {
			q := u.Query()
			state := q.Get("state")
			if !strings.Contains(state, ":") {
				// encode-state: the whole "nonce:redirect" pair is base64url-encoded
				if b, err := base64.RawURLEncoding.DecodeString(strings.TrimRight(state, "=")); err == nil && strings.Contains(string(b), ":") {
					state = string(b)
				}
			}
			if i := strings.Index(state, ":"); i >= 0 {
				state = state[i:]
			}
			if q.Get("redirect_uri") != "" || q.Get("state") != "" {
				return u.Scheme + "://" + u.Host + u.Path + " redirect_uri=" + q.Get("redirect_uri") + " state_rd=" + state
			}
		}
		return loc
	}
	out["location"] = norm(r.Location)
	var cks []string
	for _, c := range r.Cookies {
		kind := "other"
		switch {
		case w.isCSRFCookieName(c.Name):
			kind = "csrf"
		case w.isSessionCookieName(c.Name):
			kind = "session"
		}
		cks = append(cks, fmt.Sprintf("%s|%s|%s|%v|%v", kind, c.Domain, c.Path, c.Secure, c.Value == ""))
	}
	sort.Strings(cks)
	out["cookies"] = cks
	var attrs []string
	for _, m := range vpAttrRe.FindAllSubmatch(r.Body, -1) {
		attrs = append(attrs, norm(string(m[1])))
	}
	out["attrs"] = attrs
	return out
}

var vpFwdValues = map[string]string{"whitelisted": "sub.good.example.com", "foreign": "evil.com", "https": "https", "http": "http",
	"skipauth": "/open/y", "proxyprefixed": "/oauth2/sign_in", "trusted": "198.51.100.7", "untrusted": "203.0.113.77"}

func init() {
	vpRegister("forwarding", func(t *testing.T, env *vpEnv) {
		keys, groups := vpGroup(env.cases, func(c *vpCase) string { return fmt.Sprint(c.In["cfg"], c.In["mode"], c.In["ipHeader"]) })
		vpRunGroups(keys, groups, env.seed, func(rng *mrand.Rand, key string, cs []*vpCase) {
			in0 := cs[0].In
			cfg := &vpCfg{TrustedIPs: []string{"198.51.100.0/24"}, SkipAuthRoutes: []string{"^/open"}, Whitelist: []string{".example.com"},
				CookieDomains: []string{".example.com", ".good.example.com", ".corp.test"}}
			switch vpS(in0, "cfg") {
			case "spb":
				cfg.SkipProviderButton = true
			case "forcehttps":
				cfg.ForceHTTPS = true
			case "redirecturl":
				cfg.RedirectURL = "https://app.example.com/oauth2/callback"
			case "insecure_cookie":
				f := false
				cfg.CookieSecure = &f
			}
			if vpS(in0, "mode") != "off" {
				cfg.ReverseProxy = true
				cfg.RealIPHeader = vpS(in0, "ipHeader")
			} else if h := vpS(in0, "ipHeader"); h != "X-Real-IP" {
				cfg.RealIPHeader = h // configured, but reverse-proxy mode stays off
			}
			w, err := vpNewWorld(cfg)
			if err != nil {
				for _, c := range cs {
					env.emit(vpOut{ID: c.ID, Err: "world: " + err.Error()})
				}
				return
			}
			defer w.close()
			sessJar := vpNewJar()
			if _, err := w.login(sessJar, "alice", ""); err != nil {
				// with force-https the plain-http login is redirected: log in over "https"
				sessJar = vpNewJar()
			}
			if sessJar.get(w.name) == nil {
				// log in with the scheme set to https (force-https world)
				s := w.do(vpReq{Target: w.prefix() + "/start", Scheme: "https"})
				sessJar.applyAll(s)
				if code, state, err := w.idp.authorize(s.Location, "alice"); err == nil {
					q := url.Values{"code": {code}, "state": {state}}
					cb := w.do(vpReq{Target: w.prefix() + "/callback?" + q.Encode(), Scheme: "https", Cookie: sessJar.header()})
					sessJar.applyAll(cb)
				}
			}
			targets := map[string]string{"protected": "/private?x=1", "authonly": w.prefix() + "/auth", "start": w.prefix() + "/start?rd=%2Flanding",
				"sign_in": w.prefix() + "/sign_in", "sign_out": w.prefix() + "/sign_out?rd=https%3A%2F%2Fgood.example.com%2Fbye",
				"callback": w.prefix() + "/callback?code=x&state=abc%3A%2Fy"}
			for _, c := range cs {
				in := c.In
				cookie := ""
				if vpS(in, "cred") == "session" {
					cookie = sessJar.header()
				}
				base := vpReq{Target: targets[vpS(in, "endpoint")], Cookie: cookie, RemoteAddr: "203.0.113.5:41000"}
				if vpS(in, "host") == "off" {
					base.Host = "10.9.8.7:4180"
				}
				base.TLS = vpS(in, "conn") == "tls"
				if vpS(in, "form") == "absolute" {
					base.Target = "http://" + vpHost + base.Target // the absolute form of the request target
				}
				if vpS(in, "peer") == "unix" {
					base.RemoteAddr = "@"
				}
				with := base
				hm := vpM(in, "hdr")
				var names []string
				for h := range hm {
					names = append(names, h)
				}
				sort.Strings(names)
				for _, h := range names {
					if h == "Others" {
						host, uri, m := "good.example.com", "/open/y", "GET"
						if vpS(hm, h) == "hostile" {
							host, uri, m = "evil.com", "/oauth2/sign_in", "OPTIONS"
						}
						with.Header = append(with.Header, [2]string{"X-Forwarded-Method", m}, [2]string{"X-Forwarded-Port", "8443"}, [2]string{"X-Forwarded-Prefix", "/open"},
							[2]string{"X-Forwarded-Server", host}, [2]string{"X-Forwarded-Scheme", "https"}, [2]string{"X-Forwarded-Ssl", "on"},
							[2]string{"X-Original-Url", uri}, [2]string{"X-Rewrite-Url", uri},
							[2]string{"Forwarded", "for=198.51.100.7;host=" + host + ";proto=https"})
						continue
					}
					with.Header = append(with.Header, [2]string{h, vpFwdValues[vpS(hm, h)]})
				}
				r0 := w.do(base)
				r1 := w.do(with)
				p0, p1 := w.project(r0), w.project(r1)
				same := vpJSON(p0) == vpJSON(p1)
				obs := map[string]interface{}{"same": same, "panic": r0.Panic != "" || r1.Panic != ""}
				if !same {
					obs["without"], obs["with"] = p0, p1
				}
				env.emit(vpOut{ID: c.ID, Obs: obs, Conc: map[string]interface{}{"target": base.Target, "headers": with.Header}})
			}
		})
	})
}
