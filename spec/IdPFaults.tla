------------------------------- MODULE IdPFaults -------------------------------
(* C14: identity-provider failures and malformed responses fail closed.            *)
(* Flows and the provider calls they make (generic OIDC provider):                  *)
(*   login   : token endpoint (code), JWKS (first verification), profile endpoint   *)
(*             (the token lacks the e-mail claim, so the profile is consulted)      *)
(*   bearer  : JWKS (first verification of a bearer token)                          *)
(*   refresh : token endpoint (refresh_token grant)                                 *)
(*   validate: a stale session whose refresh the provider refuses is re-validated    *)
(*             by a proxy that has not fetched the signing keys yet (restarted       *)
(*             proxy, surviving cookie): JWKS                                        *)
(* A case replaces every response of one call kind by one response kind.            *)
EXTENDS Naturals, Sequences, FiniteSets, TLC, Json, CSV

CONSTANTS Tier

Vocab == [ atoms |-> [ none |-> "" ] ]

Calls == [login |-> {"token_code", "keys", "userinfo"}, bearer |-> {"keys"}, refresh |-> {"token_refresh", "userinfo"}, validate |-> {"keys"}]
\* the profile endpoint is consulted for claims the token lacks: which one it lacks decides how far a failed lookup can get
\* (without e-mail no session can exist at all; without groups a lenient lookup would silently yield a session without groups)
Lacks(call) == IF call = "userinfo" THEN {"email", "groups"} ELSE {"nothing"}
Flows == DOMAIN Calls

Transport == {"500", "400", "reset", "stall", "empty", "truncated", "nojson", "huge"}
TokenBody == {"noidtoken", "noaccesstoken", "aud_number", "aud_object", "azp_number", "azp_list_numbers", "groups_object", "email_number",
              "exp_string", "ev_string", "sub_number", "idtoken_garbage"}
\* members of the token response: optional ones missing / null / of another JSON type, alone and combined with a missing id_token
OptShapes  == {"noexpires", "expires_zero", "expires_null", "expires_string", "norefresh", "refresh_null", "notokentype"}
NoIDShapes == {"noidtoken_noexpires", "idtoken_null_noexpires", "idtoken_null", "idtoken_number", "idtoken_empty"}
BadAccess  == {"access_null", "access_number"}
Kinds(call) == Transport \cup (IF call \in {"token_code", "token_refresh"} THEN TokenBody \cup OptShapes \cup NoIDShapes \cup BadAccess ELSE {})

\* display claims the code documents as coerced to text: a session with the coerced text is an allowed outcome
Coerced == {"groups_object", "email_number", "sub_number"}
\* an ID token is optional in a refresh response (OIDC Core 12.2): extending the session with the new access token is allowed
\* the oversized body is syntactically valid JSON without any known claim: for the profile endpoint that is simply a profile
\* without the claim (a legitimate answer); for the token and key endpoints it lacks the mandatory members
\* optional members may be absent or unusable: the answer stays usable (what remains required: no crash, the proxy keeps working)
Tolerated(flow, call, kind) == \/ kind \in Coerced \/ (call = "token_refresh" /\ kind \in {"noidtoken"} \cup NoIDShapes) \/ (call = "userinfo" /\ kind = "huge")
                               \/ kind \in OptShapes

VARIABLE c
Init == \E f \in Flows : \E call \in Calls[f] : \E k \in Kinds(call), l \in Lacks(call) :
          c = [flow |-> f, call |-> call, kind |-> k, lacks |-> l]
          /\ (Tier = "quick" /\ k = "stall" => call = "token_code")
          /\ (k \in {"azp_number", "azp_list_numbers"} => TRUE)
Next == UNCHANGED c

\* "answeredAgain": once the provider is healthy again the same browser's next request is answered (whatever the answer), i.e. the proxy
\* "keeps handling other requests" also for the session the failed exchange concerned;
\* "created": a session cookie was handed out / the request was served as authenticated from the failed exchange;
\* "extended": the stored session carries tokens from the failed exchange
CaseRec == [fam |-> "idpfaults", in |-> c,
            \* pkceOK (C05 under faults): every redemption attempt the provider saw - answered with the fault, or repeated by the proxy -
            \* carried the verifier of the challenge that login's authorization request carried (S256 is configured throughout)
            req |-> (IF Tolerated(c.flow, c.call, c.kind) THEN [panic |-> FALSE, nextOK |-> TRUE, pkceOK |-> TRUE, answeredAgain |-> TRUE]
                     ELSE [created |-> FALSE, extended |-> FALSE, panic |-> FALSE, nextOK |-> TRUE, pkceOK |-> TRUE, answeredAgain |-> TRUE]
                          \* (control against vacuity: with the keys available the same session IS re-validated and served)
                          @@ (IF c.flow = "validate" THEN [controlServed |-> TRUE] ELSE <<>>)
                          \* a session due for a refresh whose own tokens have expired (self-contained credential): with the refresh failing it
                          \* is not honoured - at the first presentation of the cookie or at a second one while the provider still fails
                          @@ (IF c.flow = "refresh" /\ c.call = "token_refresh" /\ c.kind \in (Transport \ {"stall", "huge"})
                              THEN [expiredServed |-> FALSE, expiredReplayServed |-> FALSE] ELSE <<>>))]
EmitVocab == JsonSerialize("vocab.json", Vocab)
EmitCase  == CSVWrite("%1$s", <<ToJson(CaseRec)>>, "cases.ndjson")
=============================================================================
