------------------------------ MODULE SizeWindow ------------------------------
(* C10 / C18: session sizes in a window around every split threshold.  The      *)
(* abstract case is (cookie-name length, attribute weight, threshold k, offset); *)
(* the driver finds threshold k (largest payload that still fits k cookies) by   *)
(* bisection on the real store and saves a session offset bytes away from it.    *)
EXTENDS Integers, Sequences, FiniteSets, TLC, Json, CSV

CONSTANTS W, NameLens, Thresholds, Attrs

Vocab == [ atoms |-> [ none |-> "" ] ]

VARIABLE c
Init == \E nl \in NameLens, k \in Thresholds, off \in (0 - W)..W, at \in Attrs, st \in {"cookie"} :
          c = [nameLen |-> nl, threshold |-> k, offset |-> off, attrs |-> at, store |-> st]
Next == UNCHANGED c

\* whatever the size: the next request loads exactly the saved session, and no cookie exceeds 4096 bytes
CaseRec == [fam |-> "c10size", in |-> c, req |-> [loaded |-> 1, intact |-> TRUE, maxCookie |-> [le |-> 4096]]]
EmitVocab == JsonSerialize("vocab.json", Vocab)
EmitCase  == CSVWrite("%1$s", <<ToJson(CaseRec)>>, "cases.ndjson")
=============================================================================
